#!/usr/bin/env python3
"""Developer helper: generate a unit, run Verus, print rendered errors and failed obligations."""
import sys, os
sys.path.insert(0, os.path.dirname(os.path.dirname(os.path.abspath(__file__))))
from vx.unit import Unit
from vx import run as VR
name = sys.argv[1]
u = Unit(name); g = u.generate()
os.makedirs('/verif/.cache/gen', exist_ok=True)
p = '/verif/.cache/gen/%s.rs' % name
open(p, 'w').write(g.text())
print("lost:", u.lost)
vr = VR.run_verus(p, rlimit=u.cfg.get("rlimit"), use_cache=False)
n = 0
for d in vr['diags']:
    if d['level'] == 'error' and not d['message'].startswith('aborting'):
        if os.environ.get("NOCANARY", "1") == "1" and any(r['kind'] in ('canary',) and r['lo'] <= (sp.get('line_start') or 0) <= r['hi'] for sp in d.get('spans', []) if sp.get('is_primary') for r in u.gen.regions):
            continue
        n += 1
        if n <= int(os.environ.get("N", "12")):
            print(d['rendered'])
print(vr['stderr_other'][:10])
cl = VR.classify(u, vr)
print("failed:", sorted(cl['failed'])); print("canary_failed:", sorted(cl['canary_failed'])); print("machinery:", cl['machinery'][:10]); print("undecided:", cl['undecided'])
print((vr['result'] or {}).get('verification-results'), "wall %.1fs" % vr['wall_s'])
