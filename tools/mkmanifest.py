#!/usr/bin/env python3
"""Generate /verif/MANIFEST.json from checks.toml (one table per claimed property, [na.<id>] for the rest)."""
import json, os, sys, tomllib
V = os.path.dirname(os.path.dirname(os.path.abspath(__file__)))
cfg = tomllib.load(open(os.path.join(V, "checks.toml"), "rb"))
props = [json.loads(l)["id"] for l in open(os.path.join(V, "properties.jsonl"))]
checks, na = [], []
for p in props:
    if p in cfg.get("check", {}):
        c = cfg["check"][p]
        checks.append({
            "property_id": p,
            "quick_cmd": "./check %s --tier quick" % p,
            "thorough_cmd": "./check %s --tier thorough" % p,
            "evidence_file": "/verif/evidence/%s.json" % p,
            "replay_cmd_template": "./check %s --replay {path}" % p,
            "engine": "vx+verus",
            "level_claimed": {"category": c.get("category", "proof"), "text": c["text"], "design_ref": c.get("design_ref", "DESIGN.md §5 " + p)},
            "level_note": c["note"],
            "technique": c.get("technique", "contract-based deductive verification: Verus (SMT/Z3) on functions extracted mechanically from /repo each run"),
        })
    elif p in cfg.get("na", {}):
        na.append({"property_id": p, "reason": cfg["na"][p]["reason"]})
    else:
        na.append({"property_id": p, "reason": "not claimed: no check built for this property (see DESIGN.md)"})
m = {
    "version": 1,
    "setup_cmd": cfg["setup_cmd"],
    "hooks": cfg["hooks"],
    "engines": cfg.get("engines", []),
    "checks": checks,
    "notes": cfg.get("notes", ""),
    "not_applicable": na,
}
json.dump(m, open(os.path.join(V, "MANIFEST.json"), "w"), indent=1)
try:
    import jsonschema
    jsonschema.validate(m, json.load(open("/root/.vp/MANIFEST.schema.json")))
    print("MANIFEST.json valid: %d checks, %d not_applicable" % (len(checks), len(na)))
except ImportError:
    print("MANIFEST.json written (jsonschema not importable here; run with python3-vt to validate)")
