#!/usr/bin/env python3
"""Regenerate the machine-made tables of DESIGN.md (between <!-- BEGIN x --> / <!-- END x --> markers) from the unit
files, the evidence files and seeded/*/meta.json."""
import glob, json, os, re, tomllib
V = os.path.dirname(os.path.dirname(os.path.abspath(__file__)))

def units_table():
    rows = ["| unit | properties | real functions under contract (file) | assumed / trusted |", "|---|---|---|---|"]
    for p in sorted(glob.glob(os.path.join(V, "units", "*", "unit.toml"))):
        cfg = tomllib.load(open(p, "rb")); name = cfg["name"]
        fns = []
        for s in cfg.get("source", []):
            its = [(i["item"] if isinstance(i, dict) else i) for i in s["items"]]
            f = [i[3:] for i in its if i.startswith("fn ")]
            if f: fns.append("%s (`%s`)" % (", ".join("`%s`" % x for x in f), s["file"]))
        rows.append("| %s | %s | %s | %d assumptions listed in unit.toml |" % (name, ", ".join(cfg.get("properties", [])), "; ".join(fns), len(cfg.get("assumptions", []))))
    return "\n".join(rows)

def seeds_table():
    rows = ["| seeded change | property | what it changes (short) | needs | result of the registered check | failing obligation(s) / how caught |", "|---|---|---|---|---|---|"]
    for d in sorted(glob.glob(os.path.join(V, "seeded", "*", "meta.json"))):
        m = json.load(open(d)); sid = os.path.basename(os.path.dirname(d))
        if m.get("benign"):
            continue
        det = m.get("detected_by", {}).get(m["property"])
        if det is None:
            other = [(k, v) for k, v in m.get("detected_by", {}).items() if v.get("exit") == 1]
            if other:
                res = "property not claimed; caught by the check of %s" % ", ".join(k for k, _ in other)
                how = ", ".join("`%s`" % o.split("::", 1)[1] for _, v in other for o in (v.get("failed_obligations") or [])[:2])
            else:
                res, how = "property not claimed (no check)", "—"
        else:
            lines = " ".join(det.get("lines", []))
            if det["exit"] == 1:
                res = "VIOLATION" + (" (bounded stand-in / fallback)" if "bounded" in lines or not det.get("failed_obligations") else "")
                how = ", ".join("`%s`" % o.split("::", 1)[1] for o in (det.get("failed_obligations") or [])[:3]) or "bounded replay / stand-in on the real code"
            elif det["exit"] == 0:
                res = "**missed**" + (" (proof lost, bounded fallback passed)" if "PROOF-LOST" in lines else "")
                how = (m.get("note_after_fix_561dd08") or m.get("note_after_fix_ba92ea8") or "")[:160] or "see §7 notes"
            else:
                res, how = "undecided (exit 2)", lines[:120]
        short = re.sub(r"\s+", " ", m["summary"])[:150]
        needs = re.sub(r"\s+", " ", m["needs_to_manifest"])[:110]
        rows.append("| %s | %s | %s | %s | %s | %s |" % (sid, m["property"], short.replace("|", "/"), needs.replace("|", "/"), res, how.replace("|", "/")))
    return "\n".join(rows)

def benign_table():
    rows = ["| refactoring | kind | touched | result per check (must never be VIOLATION) |", "|---|---|---|---|"]
    for d in sorted(glob.glob(os.path.join(V, "seeded", "benign-*", "meta.json"))):
        m = json.load(open(d)); sid = os.path.basename(os.path.dirname(d))
        res = ", ".join("%s: %s" % (p, "VIOLATION (false alarm)" if v["exit"] == 1 else ("proof kept" if v["lines"] and v["lines"][0].startswith("OK") else "proof lost, bounded fallback passes" if v["exit"] == 0 else "undecided")) for p, v in sorted(m.get("checks", {}).items()))
        rows.append("| %s | %s | %s | %s |" % (sid, re.sub(r"\s+", " ", m.get("kind", ""))[:110].replace("|", "/"), ", ".join("`%s`" % os.path.basename(f) for f in m.get("touched", [])), res))
    return "\n".join(rows)

def evidence_table():
    rows = ["| property | obligations discharged | known-finding obligations | canaries | functions | Verus wall (s) | bounded stand-ins |", "|---|---|---|---|---|---|---|"]
    for p in sorted(glob.glob(os.path.join(V, "evidence", "C*.json"))):
        e = json.load(open(p)); c = e["coverage"]
        if e["level"] != "proof":
            rows.append("| %s | (level %s) | | | | | |" % (e["property_id"], e["level"])); continue
        st = "; ".join("%s: %d evals" % (s.get("bin"), s.get("evaluations", 0)) for s in c.get("bounded_standins", []))
        rows.append("| %s | %d / %d | %d | %d/%d | %d | %.1f | %s |" % (e["property_id"], c["discharged"], c["obligations"], len(c.get("known_finding_obligations", [])),
                    c["canaries"]["failed"], c["canaries"]["expected_fail"], len([f for f in c["functions"] if f.get("contracted")]),
                    sum(u["verus_wall_s"] for u in c["units"].values()), st))
    return "\n".join(rows)

TABLES = {"units": units_table, "seeds": seeds_table, "evidence": evidence_table, "benign": benign_table}
if __name__ == "__main__":
    p = os.path.join(V, "DESIGN.md")
    s = open(p).read()
    for k, fn in TABLES.items():
        s = re.sub(r"(<!-- BEGIN %s -->\n).*?(<!-- END %s -->)" % (k, k), lambda mo: mo.group(1) + fn() + "\n" + mo.group(2), s, flags=re.S)
    open(p, "w").write(s)
    print("tables regenerated")
