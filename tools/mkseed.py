#!/usr/bin/env python3
"""mkseed.py <Cxx> [suffix]: create scratch worktree /tmp/wt-<Cxx><suffix> of /repo HEAD and print the sub-agent prompt
(property text only; nothing from /verif)."""
import json, os, subprocess, sys
V = os.path.dirname(os.path.dirname(os.path.abspath(__file__)))
pid = sys.argv[1]; suf = sys.argv[2] if len(sys.argv) > 2 else ""
extra = sys.argv[3] if len(sys.argv) > 3 else ""
wt = "/tmp/wt-%s%s" % (pid, suf); out = "/tmp/out-%s%s" % (pid, suf)
for l in open(os.path.join(V, "properties.jsonl")):
    d = json.loads(l)
    if d["id"] == pid: break
if not os.path.exists(wt):
    subprocess.check_call("git -C /repo worktree add -q --detach %s HEAD" % wt, shell=True)
os.makedirs(out, exist_ok=True)
t = open(os.path.join(V, "tools", "seed_prompt.txt")).read()
t = t.replace("{WT}", wt).replace("{OUT}", out).replace("{ID}", pid).replace("{TITLE}", d["title"]).replace("{STATEMENT}", d["statement"]).replace("{FILES}", ", ".join(d["anchors"]["files"]))
if extra: t += "\n\nAdditional guidance: " + extra
print(t)
