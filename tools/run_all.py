#!/usr/bin/env python3
"""Run every registered check (quick tier by default) on the current tree; print one line per property."""
import json, os, subprocess, sys, time
V = os.path.dirname(os.path.dirname(os.path.abspath(__file__)))
m = json.load(open(os.path.join(V, "MANIFEST.json")))
tier = sys.argv[1] if len(sys.argv) > 1 else "quick"
bad = 0
for c in m["checks"]:
    t0 = time.time()
    cmd = c["quick_cmd"] if tier == "quick" else c["thorough_cmd"]
    p = subprocess.run(cmd, shell=True, cwd=V, capture_output=True, text=True)
    lines = [l for l in p.stdout.splitlines() if l.startswith(("OK", "VIOLATION", "KNOWN", "UNDECIDED", "PROOF-LOST"))]
    print("%s exit=%d %.0fs %s" % (c["property_id"], p.returncode, time.time() - t0, " | ".join(lines)[:200]))
    bad += p.returncode != 0
sys.exit(1 if bad else 0)
