#!/usr/bin/env python3
"""benign.py <outdir> <name-prefix>: for every R*.patch.diff in outdir (a behaviour-preserving refactoring produced by an
independent sub-agent and confirmed by its crate's tests), apply it to /repo, run the quick check of every property whose
units extract from a touched file, record exit codes / lines, undo. Expected: no VIOLATION (exit 0, OK or PROOF-LOST).
Stored as /verif/seeded/benign-<prefix>-<k>/{patch.diff,meta.json}."""
import glob, json, os, re, subprocess, sys, tomllib
V = os.path.dirname(os.path.dirname(os.path.abspath(__file__)))
out, prefix = sys.argv[1], sys.argv[2]
units = {}
for u in glob.glob(os.path.join(V, "units", "*", "unit.toml")):
    c = tomllib.load(open(u, "rb"))
    units[c["name"]] = (set(s["file"] for s in c.get("source", [])), c.get("properties", []))
for pf in sorted(glob.glob(os.path.join(out, "R*.patch.diff"))):
    k = re.search(r"R(\d+)", os.path.basename(pf)).group(1)
    files = [l[6:].strip() for l in open(pf) if l.startswith("+++ b/")]
    props = sorted({p for (fs, ps) in units.values() for p in ps if fs & set(files)})
    meta = json.load(open(pf.replace(".patch.diff", ".meta.json"))) if os.path.exists(pf.replace(".patch.diff", ".meta.json")) else {}
    assert subprocess.run("git -C /repo status --porcelain", shell=True, capture_output=True, text=True).stdout.strip() == "", "/repo not clean"
    r = subprocess.run("git -C /repo apply %s" % pf, shell=True, capture_output=True, text=True)
    if r.returncode != 0:
        print(prefix, k, "patch does not apply:", r.stderr[:200]); continue
    res = {}
    try:
        for p in props:
            c = subprocess.run([os.path.join(V, "check"), p], capture_output=True, text=True)
            lines = [l for l in c.stdout.splitlines() if l.startswith(("OK", "VIOLATION", "PROOF-LOST", "UNDECIDED"))]
            res[p] = dict(exit=c.returncode, lines=[l[:300] for l in lines])
    finally:
        subprocess.run("git -C /repo checkout -- . && git -C /repo clean -fdq", shell=True)
    d = os.path.join(V, "seeded", "benign-%s-%s" % (prefix, k)); os.makedirs(d, exist_ok=True)
    open(os.path.join(d, "patch.diff"), "w").write(open(pf).read())
    meta.update(dict(benign=True, source="independent sub-agent: behaviour-preserving refactoring, crate tests pass", touched=files, checks=res,
                     alarm=any(v["exit"] == 1 for v in res.values())))
    json.dump(meta, open(os.path.join(d, "meta.json"), "w"), indent=1)
    print(prefix, k, meta.get("kind", "")[:60], {p: (v["exit"], v["lines"][0][:40] if v["lines"] else "") for p, v in res.items()})
