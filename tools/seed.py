#!/usr/bin/env python3
"""Seeded-change helper.
  seed.py confirm <outdir> <A|B> <id>      confirm a sub-agent's change in a scratch worktree (tests pass with change,
                                           demo fails with / passes without) and store it under /verif/seeded/<id>/
  seed.py run <id> [props...]              apply /verif/seeded/<id>/patch.diff to /repo, run the checks, undo
"""
import json, os, shutil, subprocess, sys
V = os.path.dirname(os.path.dirname(os.path.abspath(__file__)))
WT = "/tmp/wt-confirm"

def sh(cmd, cwd=None, env=None, timeout=3600):
    e = dict(os.environ); e.update(env or {})
    p = subprocess.run(cmd, shell=True, cwd=cwd, env=e, capture_output=True, text=True, timeout=timeout)
    return p.returncode, p.stdout + p.stderr

def confirm(outdir, which, sid):
    meta = json.load(open(os.path.join(outdir, which + ".meta.json")))
    patch = os.path.join(outdir, which + ".patch.diff")
    demo = os.path.join(outdir, which + ".demo.diff")
    if not os.path.exists(WT):
        rc, o = sh("git -C /repo worktree add -q --detach %s HEAD" % WT); assert rc == 0, o
    sh("git checkout -q --detach $(git -C /repo rev-parse HEAD) && git checkout -- . && git clean -fdq -e target", cwd=WT)
    env = {"CARGO_TARGET_DIR": WT + "/target", "CARGO_NET_OFFLINE": "true"}
    rc, o = sh("git apply %s" % patch, cwd=WT); assert rc == 0, "patch does not apply: " + o
    crates = sorted({l.split("/")[1] for l in open(patch) if l.startswith("+++ b/")})
    ran = []
    ok_tests = True
    for c in crates:
        cmd = "cargo test -p %s --offline --no-fail-fast 2>&1 | grep -E '^test |test result|^error' " % c
        rc, o = sh(cmd, cwd=WT, env=env)
        base = json.load(open("/root/.vp/BASELINE.json"))
        known_bad = {t.split("::", 1)[1] for t in base.get("always_fail", [])}
        failed = [l.split()[1] for l in o.splitlines() if l.startswith("test ") and l.rstrip().endswith("FAILED")]
        new_fail = [t for t in failed if t not in known_bad]
        passed = "test result:" in o and not new_fail and "error" not in o.split("test result")[0][:0]
        if not passed:
            o = "new failures: %s\n" % new_fail + o[-600:]
        ran.append(dict(cmd="cargo test -p %s --offline" % c, passed=passed, tail=o[-600:]))
        ok_tests &= passed
    rc, o = sh("git apply %s" % demo, cwd=WT)
    if rc != 0:
        # the hook commits in /repo may have shifted the context of a demo hunk: retry with fuzz
        rc, o2 = sh("patch -p1 -F3 --no-backup-if-mismatch < %s" % demo, cwd=WT); assert rc == 0, "demo does not apply: " + o + o2
    dcmd = meta["demo_cmd"]
    import re
    dcmd = re.sub(r"CARGO_TARGET_DIR=\S+\s*", "", dcmd)
    rc1, o1 = sh(dcmd + " 2>&1 | tail -30", cwd=WT, env=env)
    fails_with = ("FAILED" in o1 or "panicked" in o1) and "could not compile" not in o1
    sh("git apply -R %s" % patch, cwd=WT)
    rc2, o2 = sh(dcmd + " 2>&1 | tail -30", cwd=WT, env=env)
    passes_without = "test result: ok" in o2 and "FAILED" not in o2
    sh("git checkout -- . && git clean -fdq -e target", cwd=WT)
    res = dict(tests_pass_with_change=ok_tests, demo_fails_with_change=fails_with, demo_passes_without_change=passes_without)
    print(json.dumps(res)); 
    if not (ok_tests and fails_with and passes_without):
        print("NOT CONFIRMED"); print(ran[-1]["tail"] if ran else ""); print(o1[-800:]); print(o2[-800:])
        return 1
    d = os.path.join(V, "seeded", sid); os.makedirs(d, exist_ok=True)
    shutil.copy(patch, os.path.join(d, "patch.diff")); shutil.copy(demo, os.path.join(d, "demo.diff"))
    json.dump(dict(property=meta["property"], summary=meta["summary"], needs_to_manifest=meta["needs_to_manifest"],
                   demo_cmd=dcmd, source="independent sub-agent given only the property text and a scratch worktree",
                   confirmed_by_me=dict(base_commit=subprocess.check_output("git -C /repo rev-parse --short HEAD", shell=True, text=True).strip(),
                                        ran=[r["cmd"] for r in ran] + [dcmd + "  (with change: FAILS)", dcmd + "  (without change: passes)"], **res),
                   detected_by={}), open(os.path.join(d, "meta.json"), "w"), indent=1)
    print("stored", d)
    return 0

def run(sid, props):
    d = os.path.join(V, "seeded", sid)
    meta = json.load(open(os.path.join(d, "meta.json")))
    props = props or [meta["property"]]
    rc, o = sh("git -C /repo status --porcelain"); assert o.strip() == "", "/repo not clean: " + o
    rc, o = sh("git -C /repo apply %s" % os.path.join(d, "patch.diff")); assert rc == 0, o
    out = {}
    try:
        for p in props:
            rc, o = sh("./check %s --tier quick" % p, cwd=V)
            lines = [l for l in o.splitlines() if l.startswith(("VIOLATION", "OK", "UNDECIDED", "KNOWN", "PROOF-LOST"))]
            out[p] = dict(exit=rc, lines=lines)
            print(p, rc, lines)
            if rc == 1:
                ev = json.load(open(os.path.join(V, "evidence", p + ".json")))
                out[p]["failed_obligations"] = ev["coverage"].get("failed_obligations")
                print("   failed:", out[p]["failed_obligations"])
    finally:
        sh("git -C /repo checkout -- .")
        # regenerate the evidence files from the unchanged tree (they must never come from a seeded run)
        for p in props:
            sh("./check %s --tier quick" % p, cwd=V)
    meta.setdefault("detected_by", {}).update(out)
    json.dump(meta, open(os.path.join(d, "meta.json"), "w"), indent=1)

if __name__ == "__main__":
    if sys.argv[1] == "confirm":
        sys.exit(confirm(sys.argv[2], sys.argv[3], sys.argv[4]))
    else:
        run(sys.argv[2], sys.argv[3:])
