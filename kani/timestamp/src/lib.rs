#[path = "/repo/p2panda-core/src/timestamp.rs"]
pub mod timestamp;

#[cfg(kani)]
mod proofs {
    use super::timestamp::*;

    fn any_now() -> Timestamp { Timestamp::new(kani::any()) }

    #[kani::proof]
    #[kani::stub(Timestamp::now, any_now)]
    fn increment_strict() {
        let t: u64 = kani::any();
        let l: u64 = kani::any();
        kani::assume(l < u64::MAX);
        let a = HybridTimestamp::from_parts(Timestamp::new(t), LamportTimestamp::new(l));
        let b = a.increment();
        assert!(b > a);
    }
}
