#![feature(allocator_api)]
use vstd::prelude::*;
use std::collections::BTreeMap;
use std::collections::btree_map::Entry;
use std::alloc::Allocator;
verus! {

#[verifier::external_type_specification]
#[verifier::external_body]
#[verifier::reject_recursive_types(K)]
#[verifier::reject_recursive_types(V)]
#[verifier::reject_recursive_types(A)]
pub struct ExEntry<'a, K: 'a, V: 'a, A: Allocator + Clone>(Entry<'a, K, V, A>);

pub uninterp spec fn entry_key<'a, K, V, A: Allocator + Clone>(e: Entry<'a, K, V, A>) -> K;
pub uninterp spec fn entry_before<'a, K, V, A: Allocator + Clone>(e: Entry<'a, K, V, A>) -> Map<K, V>;
pub uninterp spec fn entry_final<'a, K, V, A: Allocator + Clone>(e: Entry<'a, K, V, A>) -> Map<K, V>;

pub assume_specification<'a, K: Ord, V, A: Allocator + Clone> [BTreeMap::<K, V, A>::entry] (m: &'a mut BTreeMap<K, V, A>, key: K) -> (e: Entry<'a, K, V, A>)
    ensures
        entry_key(e) == key,
        entry_before(e) == old(m)@,
        entry_final(e) == final(m)@,
;

pub assume_specification<'a, K: Ord, V: Default, A: Allocator + Clone> [Entry::<'a, K, V, A>::or_default] (e: Entry<'a, K, V, A>) -> (r: &'a mut V)
    ensures
        entry_before(e).contains_key(entry_key(e)) ==> *r == entry_before(e)[entry_key(e)],
        entry_final(e) == entry_before(e).insert(entry_key(e), *final(r)),
;

fn adv(state: &mut BTreeMap<u64, BTreeMap<u64, u32>>, author: u64, log_id: u64, h: u32)
    ensures
        old(state)@.contains_key(author) ==> final(state)@.contains_key(author) && final(state)@[author]@ == old(state)@[author]@.insert(log_id, h),
        forall|a: u64| a != author ==> (final(state)@.contains_key(a) <==> old(state)@.contains_key(a)),
        forall|a: u64| a != author && old(state)@.contains_key(a) ==> final(state)@[a] == old(state)@[a],
{
    state.entry(author).or_default().insert(log_id, h);
}

} // verus!
fn main() {}
