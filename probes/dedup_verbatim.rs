#![feature(allocator_api)]
use vstd::prelude::*;
use std::collections::{VecDeque, HashSet};
use std::hash::Hash;
verus! {

pub uninterp spec fn vd_cap<T, A: std::alloc::Allocator>(v: &VecDeque<T, A>) -> usize;

pub assume_specification<T, A: std::alloc::Allocator> [std::collections::VecDeque::<T, A>::capacity] (v: &std::collections::VecDeque<T, A>) -> (r: usize)
  ensures r == vd_cap(v)
;

pub struct DeduplicationBuffer<T> {
    buffer: VecDeque<T>,
    set: HashSet<T>,
}

impl<T> DeduplicationBuffer<T>
where
    T: Eq + Hash + Clone,
{
    pub closed spec fn wf(&self) -> bool {
        &&& self.set@ == self.buffer@.to_set()
        &&& self.buffer@.no_duplicates()
    }

    pub closed spec fn view(&self) -> Seq<T> { self.buffer@ }
    pub closed spec fn cap(&self) -> usize { vd_cap(&self.buffer) }

    pub fn new(capacity: usize) -> (r: Self)
       ensures r.wf()
    {
        Self {
            buffer: VecDeque::with_capacity(capacity),
            set: HashSet::with_capacity(capacity),
        }
    }

    pub fn insert(&mut self, item: T) -> (r: bool)
        requires old(self).wf(), vstd::std_specs::hash::obeys_key_model::<T>(),
        ensures final(self).wf(),
           r == !old(self)@.contains(item),
  !r ==> final(self)@ == old(self)@,
 r ==> final(self)@ == (if old(self)@.len() + 1 > old(self).cap() { old(self)@.skip(1) } else { old(self)@ }).push(item),
    {
        if self.set.contains(&item) {
            return false;
        }

        if self.buffer.len() + 1 > self.buffer.capacity() {
            let evicted = self.buffer.pop_front();
            if let Some(evicted) = evicted {
                self.set.remove(&evicted);
            }
        }

        self.buffer.push_back(item.clone());
        self.set.insert(item);
        true
    }

    pub fn contains(&self, item: &T) -> bool {
        self.set.contains(item)
    }
}

} // verus!
fn main() {}
