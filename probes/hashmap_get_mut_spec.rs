#![feature(allocator_api)]
use vstd::prelude::*;
use vstd::std_specs::hash::*;
use std::collections::HashMap;
use std::borrow::Borrow;
use std::hash::{Hash, BuildHasher};
use std::alloc::Allocator;
verus! {

pub struct MS { pub mc: usize, pub ac: usize }

pub assume_specification<'a, K, V, S, A, Q> [std::collections::HashMap::<K, V, S, A>::get_mut::<Q>] (m: &'a mut HashMap<K, V, S, A>, k: &Q) -> (r: Option<&'a mut V>)
    where
          A: Allocator,
          K: Eq + Hash + Borrow<Q>,
          Q: std::marker::MetaSized + Hash + Eq + ?Sized,
          S: BuildHasher,
    ensures
        obeys_key_model::<K>() && builds_valid_hashers::<S>() ==> match r {
            Some(v) => contains_borrowed_key(old(m)@, k) && maps_borrowed_key_to_value(old(m)@, k, *v)
                 && (forall|kk: K| #[trigger] old(m)@.contains_key(kk) && key_matches(kk, k) ==> final(m)@ == old(m)@.insert(kk, *final(v))),
            None => !contains_borrowed_key(old(m)@, k) && final(m)@ == old(m)@,
        }
;

pub uninterp spec fn key_matches<K, Q: ?Sized>(kk: K, k: &Q) -> bool;

fn bump(m: &mut HashMap<u64, MS>, k: u64)
    ensures
        !old(m)@.contains_key(k) ==> final(m)@ == old(m)@,
{
    if let Some(ms) = m.get_mut(&k) {
        if ms.mc < 10 {
            ms.mc = ms.mc + 1;
        }
    }
}

} // verus!
fn main() {}
