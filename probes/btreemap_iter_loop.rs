use vstd::prelude::*;
use std::collections::BTreeMap;
use vstd::std_specs::iter::IteratorSpec;
verus! {

fn maxv(m: &BTreeMap<u64, u32>) -> (n: u32)
    ensures forall|k: u64| m@.contains_key(k) ==> m@[k] <= n
{
    let mut n: u32 = 0;
    let iter0 = m.iter();
    assert(iter0.remaining().len() == m@.len());
    assert(forall|k: u64| m@.contains_key(k) ==> exists|i: int| 0 <= i < iter0.remaining().len() && *(#[trigger] iter0.remaining()[i]).0 == k && *iter0.remaining()[i].1 == m@[k]);
    for (k, v) in it: iter0
        invariant forall|i: int| 0 <= i < it.history@.len() ==> *(#[trigger] it.history@[i]).1 <= n,
                  it.history@ + it.iter.remaining() == it.snapshot@.remaining(),
    {
        if *v > n { n = *v; }
    }
    n
}

} // verus!
fn main() {}
