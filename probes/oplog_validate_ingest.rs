use vstd::prelude::*;
use std::borrow::Borrow;
verus! {

// ---------- prelude (shims) ----------
#[verifier::external_trait_specification]
pub trait ExBorrow<Borrowed: ?Sized> {
    type ExternalTraitSpecificationFor: core::borrow::Borrow<Borrowed>;
    fn borrow(&self) -> (r: &Borrowed)
        ensures r == borrowed_ref::<Self, Borrowed>(self);
}
pub uninterp spec fn borrowed_ref<T: ?Sized, B: ?Sized>(x: &T) -> &B;


pub type SeqNum = u32;
pub type Version = u16;

#[derive(Clone, Copy, PartialEq, Eq, Structural)]
pub struct Hash(pub [u8; 32]);
#[derive(Clone, Copy, PartialEq, Eq, Structural)]
pub struct VerifyingKey(pub [u8; 32]);
#[derive(Clone, Copy, PartialEq, Eq, Structural)]
pub struct Signature(pub [u8; 64]);

pub trait Extensions: Clone {}

pub uninterp spec fn sig_ok(key: VerifyingKey, bytes: Seq<u8>, sig: Signature) -> bool;
pub uninterp spec fn digest(bytes: Seq<u8>) -> Hash;
pub uninterp spec fn enc<E>(h: Header<E>) -> Seq<u8>;

impl VerifyingKey {
    #[verifier::external_body]
    pub fn verify(&self, bytes: &[u8], signature: &Signature) -> (r: bool)
        ensures r == sig_ok(*self, bytes@, *signature)
    { unimplemented!() }
}

impl Hash {
    #[verifier::external_body]
    pub fn digest(bytes: Vec<u8>) -> (r: Hash)
        ensures r == digest(bytes@)
    { unimplemented!() }
}

pub struct Header<E> {
    pub version: Version,
    pub verifying_key: VerifyingKey,
    pub signature: Option<Signature>,
    pub payload_size: u32,
    pub payload_hash: Option<Hash>,
    pub seq_num: SeqNum,
    pub backlink: Option<Hash>,
    pub extensions: E,
}

impl<E: Extensions> Clone for Header<E> {
    #[verifier::external_body]
    fn clone(&self) -> (r: Self) ensures r == *self { unimplemented!() }
}

pub struct Body(pub Vec<u8>);
impl Body {
    #[verifier::external_body]
    pub fn hash(&self) -> (r: Hash) ensures r == digest(self.0@) { unimplemented!() }
    pub fn size(&self) -> (r: u32)
        requires self.0@.len() <= u32::MAX
        ensures r == self.0@.len()
    {
        self.0.len() as u32
    }
}

pub struct Operation<E> {
    pub hash: Hash,
    pub header: Header<E>,
    pub body: Option<Body>,
}

pub enum OperationError {
    UnsupportedVersion(Version, Version),
    MissingSignature,
    SignatureMismatch,
    SeqNumMismatch,
    InconsistentPayloadInfo,
    MissingPayloadHash,
    PayloadMismatch,
    TooManyAuthors,
    SeqNumNonIncremental(SeqNum, SeqNum),
    BacklinkMissing,
    BacklinkMismatch,
}

pub open spec fn unsigned<E>(h: Header<E>) -> Header<E> {
    Header { signature: None, ..h }
}

pub open spec fn sig_valid<E>(h: Header<E>) -> bool {
    h.signature is Some && sig_ok(h.verifying_key, enc(unsigned(h)), h.signature->0)
}

pub open spec fn hdr_ok<E>(h: Header<E>) -> bool {
    &&& sig_valid(h)
    &&& h.version == 1
    &&& (h.payload_hash is Some <==> h.payload_size > 0)
    &&& (h.backlink is Some <==> h.seq_num > 0)
}

pub open spec fn links<E>(p: Header<E>, h: Header<E>) -> bool {
    &&& p.verifying_key == h.verifying_key
    &&& p.seq_num + 1 == h.seq_num
    &&& h.backlink == Some(digest(enc(p)))
}

impl<E> Header<E>
where
    E: Extensions,
{
    #[verifier::external_body]
    pub fn to_bytes(&self) -> (r: Vec<u8>)
        ensures r@ == enc(*self)
    { unimplemented!() }

    // ---------- extracted verbatim ----------
    pub fn verify(&self) -> (r: bool)
        ensures r == sig_valid(*self)
    {
        match self.signature {
            Some(claimed_signature) => {
                let mut unsigned_header = self.clone();
                unsigned_header.signature = None;
                let unsigned_bytes = unsigned_header.to_bytes();
                self.verifying_key
                    .verify(&unsigned_bytes, &claimed_signature)
            }
            None => false,
        }
    }

    pub fn hash(&self) -> (r: Hash)
        ensures r == digest(enc(*self))
    {
        Hash::digest(self.to_bytes())
    }
}

pub fn validate_header<E>(header: &Header<E>) -> (r: Result<(), OperationError>)
where
    E: Extensions,
    ensures r is Ok <==> hdr_ok(*header)
{
    if !header.verify() {
        return Err(OperationError::SignatureMismatch);
    }

    if header.version != 1 {
        return Err(OperationError::UnsupportedVersion(header.version, 1));
    }

    if (header.payload_hash.is_some() && header.payload_size == 0)
        || (header.payload_hash.is_none() && header.payload_size > 0)
    {
        return Err(OperationError::InconsistentPayloadInfo);
    }

    if header.backlink.is_some() && header.seq_num == 0 {
        return Err(OperationError::SeqNumMismatch);
    }

    if header.backlink.is_none() && header.seq_num > 0 {
        return Err(OperationError::BacklinkMissing);
    }

    Ok(())
}

pub fn validate_backlink<E>(
    past_header: impl Borrow<Header<E>>,
    header: impl Borrow<Header<E>>,
) -> (r: Result<(), OperationError>)
where
    E: Extensions,
    requires borrowed_ref::<_, Header<E>>(&past_header).seq_num < u32::MAX
    ensures r is Ok <==> links(*borrowed_ref::<_, Header<E>>(&past_header), *borrowed_ref::<_, Header<E>>(&header))
{
    let past_header = past_header.borrow();
    let header = header.borrow();

    if past_header.verifying_key != header.verifying_key {
        return Err(OperationError::TooManyAuthors);
    }

    if past_header.seq_num + 1 != header.seq_num {
        return Err(OperationError::SeqNumNonIncremental(
            past_header.seq_num + 1,
            header.seq_num,
        ));
    }

    match header.backlink {
        Some(backlink) => {
            if past_header.hash() != backlink {
                return Err(OperationError::BacklinkMismatch);
            }
        }
        None => {
            return Err(OperationError::BacklinkMissing);
        }
    }

    Ok(())
}


// ---------- store shims ----------
pub trait LogId: Clone {}

pub struct StoreView {
    pub ops: Set<Hash>,
    pub writes: nat,
}

pub trait Transaction {
    type Error;
    type Permit;
    spec fn committed(&self) -> StoreView;
    spec fn txview(&self) -> StoreView;
    spec fn in_tx(&self) -> bool;
    fn begin(&mut self) -> (r: Result<Self::Permit, Self::Error>)
        requires !old(self).in_tx()
        ensures final(self).committed() == old(self).committed(),
                r is Ok ==> final(self).in_tx() && final(self).txview() == old(self).committed(),
                r is Err ==> !final(self).in_tx();
    fn rollback(&mut self, permit: Self::Permit) -> (r: Result<(), Self::Error>)
        requires old(self).in_tx()
        ensures final(self).committed() == old(self).committed(), !final(self).in_tx();
    fn commit(&mut self, permit: Self::Permit) -> (r: Result<(), Self::Error>)
        requires old(self).in_tx()
        ensures !final(self).in_tx(),
                r is Ok ==> final(self).committed() == old(self).txview(),
                r is Err ==> final(self).committed() == old(self).committed();
}

pub trait OperationStore<T, ID>: Transaction {
    type OError;
    fn has_operation_tx(&mut self, id: &Hash) -> (r: Result<bool, Self::OError>)
        requires old(self).in_tx()
        ensures final(self).in_tx(), final(self).committed() == old(self).committed(), final(self).txview() == old(self).txview(),
                r is Ok ==> r->Ok_0 == old(self).txview().ops.contains(*id);
}

#[verifier::external_body]
pub fn verif_opaque_string() -> String { unimplemented!() }

pub enum IngestError {
    InvalidOperation(OperationError),
    StoreError(String),
}

impl vstd::std_specs::convert::FromSpecImpl<OperationError> for IngestError {
    open spec fn obeys_from_spec() -> bool { true }
    open spec fn from_spec(e: OperationError) -> Self { IngestError::InvalidOperation(e) }
}
impl From<OperationError> for IngestError {
    fn from(e: OperationError) -> (r: Self) { IngestError::InvalidOperation(e) }
}

pub async fn ingest_operation<S, E>(
    store: &mut S,
    operation: &Operation<E>,
    prune_flag: bool,
) -> (r: Result<bool, IngestError>)
where
    S: Transaction
        + OperationStore<Operation<E>, Hash>,
    E: Extensions,
    requires !old(store).in_tx()
    ensures
        r is Err && r->Err_0 is InvalidOperation ==> final(store).committed() == old(store).committed(),
        r is Ok ==> hdr_ok(operation.header),
{
    // Validate operation format.
    validate_header(&operation.header)?;

    let permit = store
        .begin()
        .map_err(|err| IngestError::StoreError(verif_opaque_string()))?;

    // Ignore insertion if operation already exists.
    let already_exists = store
        .has_operation_tx(&operation.hash)
        .map_err(|err| IngestError::StoreError(verif_opaque_string()))?;

    if already_exists {
        store
            .rollback(permit)
            .map_err(|err| IngestError::StoreError(verif_opaque_string()))?;

        return Ok(false);
    }

    store
        .commit(permit)
        .map_err(|err| IngestError::StoreError(verif_opaque_string()))?;

    Ok(true)
}

} // verus!
fn main() {}
