use vstd::prelude::*;
use std::collections::BTreeMap;
verus! {

#[derive(Copy, Clone, Debug, PartialEq, Eq, PartialOrd, Ord)]
pub struct Timestamp(u64);

#[derive(Copy, Clone, Default, Debug, PartialEq, Eq, PartialOrd, Ord)]
pub struct LamportTimestamp(u64);

impl LamportTimestamp {
    pub fn increment(self) -> Self {
        Self(self.0 + 1)
    }
}

#[derive(Copy, Clone, Debug, PartialEq, Eq, PartialOrd, Ord)]
pub struct HybridTimestamp(Timestamp, LamportTimestamp);

pub closed spec fn ht_lt(a: HybridTimestamp, b: HybridTimestamp) -> bool { a.0.0 < b.0.0 || (a.0.0 == b.0.0 && a.1.0 < b.1.0) }
#[verifier::external_body]
fn now() -> Timestamp { unimplemented!() }

impl HybridTimestamp {
    pub fn increment(self) -> (r: Self)
        ensures ht_lt(self, r)
    {
        let timestamp = now();
        if timestamp == self.0 {
            Self(timestamp, self.1.increment())
        } else {
            Self(timestamp, LamportTimestamp::default())
        }
    }
}

} // verus!
fn main() {}
