use vstd::prelude::*;
use std::collections::HashMap;
verus! {

pub struct G { pub counted: Map<u64, nat>, pub sum: nat }

pub struct Agg {
    pub total: u32,
    pub metrics: HashMap<u64, u32>,
    pub ghost_state: Ghost<G>,
}

impl Agg {
    pub closed spec fn inv(&self) -> bool { self.total as nat == self.ghost_state@.sum }
    pub closed spec fn counted(&self, s: u64) -> nat { if self.ghost_state@.counted.contains_key(s) { self.ghost_state@.counted[s] } else { 0 } }

    pub fn finish(&mut self, s: u64, m: u32)
        requires old(self).inv(), old(self).total + m <= u32::MAX, m >= old(self).counted(s)
        ensures final(self).inv(), final(self).counted(s) == m
    {
        proof {
            let g = self.ghost_state@;
            let c = if g.counted.contains_key(s) { g.counted[s] } else { 0 };
            self.ghost_state = Ghost(G { counted: g.counted.insert(s, m as nat), sum: (g.sum - c + m) as nat });
        }
        self.metrics.insert(s, m);
        self.total += m;
    }
}

} // verus!
fn main() {}
