#![feature(allocator_api)]
use vstd::prelude::*;
use std::collections::BTreeMap;
use std::collections::btree_map::Entry;
use std::alloc::Allocator;
verus! {

#[verifier::external_type_specification]
#[verifier::external_body]
#[verifier::reject_recursive_types(K)]
#[verifier::reject_recursive_types(V)]
#[verifier::reject_recursive_types(A)]
pub struct ExEntry<'a, K: 'a, V: 'a, A: Allocator + Clone>(Entry<'a, K, V, A>);

pub uninterp spec fn entry_key<'a, K, V, A: Allocator + Clone>(e: Entry<'a, K, V, A>) -> K;
pub uninterp spec fn entry_before<'a, K, V, A: Allocator + Clone>(e: Entry<'a, K, V, A>) -> Map<K, V>;
pub uninterp spec fn entry_final<'a, K, V, A: Allocator + Clone>(e: Entry<'a, K, V, A>) -> Map<K, V>;

pub assume_specification<'a, K: Ord, V, A: Allocator + Clone> [BTreeMap::<K, V, A>::entry] (m: &'a mut BTreeMap<K, V, A>, key: K) -> (e: Entry<'a, K, V, A>)
    ensures
        entry_key(e) == key,
        entry_before(e) == old(m)@,
        entry_final(e) == final(m)@,
;

pub uninterp spec fn default_of<V>() -> V;

pub assume_specification<'a, K: Ord, V: Default, A: Allocator + Clone> [Entry::<'a, K, V, A>::or_default] (e: Entry<'a, K, V, A>) -> (r: &'a mut V)
    ensures
        entry_before(e).contains_key(entry_key(e)) ==> *r == entry_before(e)[entry_key(e)],
        !entry_before(e).contains_key(entry_key(e)) ==> *r == default_of::<V>(),
        entry_final(e) == entry_before(e).insert(entry_key(e), *final(r)),
;

pub type SeqNum = u32;
pub type LogHeights<A, L> = BTreeMap<A, BTreeMap<L, SeqNum>>;
pub trait Author: Clone + Ord {}
pub trait LogId: Clone + Ord {}

pub struct Cursor<A, L> {
    pub name: String,
    pub state: LogHeights<A, L>,
}

pub open spec fn h<A, L>(s: LogHeights<A, L>, a: A, l: L) -> Option<SeqNum> {
    if s@.contains_key(a) && s@[a]@.contains_key(l) { Some(s@[a]@[l]) } else { None }
}

impl<A, L> Cursor<A, L>
where
    A: Author,
    L: LogId,
{
    /// Returns state vector for a specific log.
    pub fn log_height(&self, author: &A, log_id: &L) -> (r: Option<&SeqNum>)
        requires vstd::laws_cmp::obeys_cmp::<A>(), vstd::laws_cmp::obeys_cmp::<L>(),
        ensures (r is Some) == (h(self.state, *author, *log_id) is Some),
                r is Some ==> *r->0 == h(self.state, *author, *log_id)->0,
    {
        self.state.get(author).and_then(|logs: &BTreeMap<L, SeqNum>| -> (r: Option<&SeqNum>) ensures (r is Some) == logs@.contains_key(*log_id), r is Some ==> *r->0 == logs@[*log_id] { logs.get(log_id) })
    }

    /// Advances the state of a specific log.
    pub fn advance(&mut self, author: A, log_id: L, log_height: SeqNum)
        requires vstd::laws_cmp::obeys_cmp::<A>(), vstd::laws_cmp::obeys_cmp::<L>(),
        ensures
            h(final(self).state, author, log_id) == Some(match h(old(self).state, author, log_id) { Some(c) => if c >= log_height { c } else { log_height }, None => log_height }),
    {
        // Ignore if given log-height is lower-or-equal than current state.
        if let Some(current_log_height) = self.log_height(&author, &log_id) {
            if current_log_height >= &log_height
        {
            return;
        } }

        self.state
            .entry(author)
            .or_default()
            .insert(log_id, log_height);
    }
}

} // verus!
fn main() {}
