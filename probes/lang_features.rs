use vstd::prelude::*;
verus! {

pub enum Args { A { x: u32 }, B, C }

pub trait Sink<M> {
    type Error;
    spec fn sent(&self) -> Seq<M>;
    fn send(&mut self, m: M) -> (r: Result<(), Self::Error>)
        ensures r is Ok ==> final(self).sent() == old(self).sent().push(m),
                r is Err ==> final(self).sent() == old(self).sent();
}

pub enum Msg { Topic(u64), Done }

fn run(sink: &mut impl Sink<Msg>, t: Option<u64>) -> (r: Result<u64, ()>)
    ensures r is Ok ==> final(sink).sent() == old(sink).sent().push(Msg::Done)
{
    let Some(topic) = t else {
        return Err(());
    };
    if let Some(tt) = t { if tt > 5 {
        return Err(());
    } }
    sink.send(Msg::Done).map_err(|_e| ())?;
    Ok(topic)
}

fn route(a: &Args) -> u32 {
    match a {
        Args::A { x } => *x,
        Args::B => 0,
        Args::C => unimplemented!(),
    }
}

} // verus!
fn main() {}
