use vstd::prelude::*;
use std::collections::BTreeMap;
verus! {

fn needs_all(local_logs: &BTreeMap<u64, u32>) -> (r: Vec<(u64, u32)>)
{
    let it = local_logs.iter();
    let m = it.map(|p: (&u64, &u32)| -> (q: (u64, u32)) ensures q == (*p.0, *p.1) { let (log_id, log_height) = p; (log_id.clone(), *log_height) });
    let needs: Vec<(u64, u32)> = m.collect();
    assert(needs@.len() == local_logs@.len());
    needs
}

} // verus!
fn main() {}
