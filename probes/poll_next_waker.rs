use vstd::prelude::*;
verus! {

pub enum Poll<T> { Ready(T), Pending }

pub struct Context { pub armed: bool }

pub struct Topic(pub [u8; 32]);
impl Clone for Topic { #[verifier::external_body] fn clone(&self) -> (r: Self) ensures r == *self { unimplemented!() } }
impl Copy for Topic {}

pub struct WrappedMessage<M> { pub body: M }
pub enum WrappedMessageError { Bad }

pub uninterp spec fn parse<M>(b: Seq<u8>) -> Result<WrappedMessage<M>, WrappedMessageError>;

impl<M> WrappedMessage<M> {
    #[verifier::external_body]
    pub fn from_bytes(bytes: &[u8]) -> (r: Result<Self, WrappedMessageError>)
        ensures r == parse::<M>(bytes@)
    { unimplemented!() }
}

pub struct GossipSubscription { pub pending: Ghost<Seq<Option<Result<Vec<u8>, ()>>>> }

impl GossipSubscription {
    #[verifier::external_body]
    pub fn poll_next_unpin(&mut self, cx: &mut Context) -> (r: Poll<Option<Result<Vec<u8>, ()>>>)
        ensures
            r is Pending ==> final(cx).armed && final(self).pending == old(self).pending,
            r is Ready ==> final(cx).armed == old(cx).armed,
    { unimplemented!() }
}

pub struct EphemeralMessage<M> { pub topic: Topic, pub inner: WrappedMessage<M> }

pub struct EphemeralStreamSubscription<M> {
    pub topic: Topic,
    pub inner: GossipSubscription,
    pub _marker: std::marker::PhantomData<M>,
}

impl<M> EphemeralStreamSubscription<M>
{
    // extracted (R6 ready! expansion, R10 Pin erasure, R5 warn! deleted)
    fn poll_next(&mut self, cx: &mut Context) -> (r: Poll<Option<EphemeralMessage<M>>>)
        requires !old(cx).armed
        ensures r is Pending ==> final(cx).armed
    {
        match (match self.inner.poll_next_unpin(cx) { Poll::Ready(t) => t, Poll::Pending => return Poll::Pending }) {
            // Check encoding & supported version and signature during deserialisation.
            Some(Ok(bytes)) => match WrappedMessage::from_bytes(&bytes) {
                Ok(wrapped) => Poll::Ready(Some(EphemeralMessage {
                    topic: self.topic,
                    inner: wrapped,
                })),
                Err(err) => {
                    Poll::Pending
                }
            },
            Some(Err(_)) => Poll::Pending,
            // Internal stream seized.
            None => Poll::Ready(None),
        }
    }
}

} // verus!
fn main() {}
