//! C36 replay: the real SecretBundle::{insert, remove, extend, generate} against "latest = maximum by
//! (timestamp, id), independent of order; generated secret strictly later than the current latest".
//! Exhaustive over small families of secrets (timestamps {0,1,2}), every insertion order, every
//! two-way split merged with extend in both directions, and every single removal.
use p2panda_encryption::Rng;
use p2panda_encryption::data_scheme::group_secret::{GroupSecret, SecretBundle, SecretBundleState};
use serde_json::json;

fn mk(b: u8, ts: u64) -> GroupSecret { GroupSecret::new([b; 32], ts) }

fn max_of(v: &[GroupSecret]) -> Option<GroupSecret> {
    v.iter().cloned().max_by(|a, b| (a.timestamp(), a.id()).cmp(&(b.timestamp(), b.id())))
}

fn perms(n: usize) -> Vec<Vec<usize>> {
    if n == 0 { return vec![vec![]]; }
    let mut out = vec![];
    for p in perms(n - 1) { for i in 0..=p.len() { let mut q = p.clone(); q.insert(i, n - 1); out.push(q); } }
    out
}

fn bundle(v: &[GroupSecret]) -> SecretBundleState {
    let mut y = SecretBundle::init();
    for s in v { y = SecretBundle::insert(y, s.clone()); }
    y
}

fn main() {
    let _a = rp_core::args();
    let mut n = 0u64;
    let mut reported = std::collections::BTreeSet::new();
    let mut rep = |class: &str, input: serde_json::Value, obs: serde_json::Value, obl: &[&str]| {
        if reported.insert(class.to_string()) { rp_core::report(true, class, input, obs, obl); }
    };
    let ts_choices = [0u64, 1, 2];
    for k in 1..=4usize {
        for code in 0..ts_choices.len().pow(k as u32) {
            let mut c = code;
            let fam: Vec<GroupSecret> = (0..k).map(|i| { let t = ts_choices[c % 3]; c /= 3; mk(i as u8 + 1, t) }).collect();
            let want = max_of(&fam);
            let desc = fam.iter().map(|s| (s.id()[0], s.timestamp())).collect::<Vec<_>>();
            for p in perms(k) {
                n += 1;
                let ord: Vec<GroupSecret> = p.iter().map(|i| fam[*i].clone()).collect();
                let y = bundle(&ord);
                if y.latest().cloned() != want {
                    rep("insert-order", json!({"secrets(id0,ts)": desc, "order": p}), json!({"latest": y.latest().map(|s| s.timestamp())}), &["group_secret::SecretBundle::insert.ensures#wf", "group_secret::find_latest.ensures#is_maximum_by_timestamp_then_id"]);
                }
                // split + extend both ways
                for cut in 0..=k {
                    let (l, r) = ord.split_at(cut);
                    let a = SecretBundle::extend(bundle(l), bundle(r));
                    let b = SecretBundle::extend(bundle(r), bundle(l));
                    n += 2;
                    if a.latest().cloned() != want || b.latest().cloned() != want {
                        rep("extend-merge-order", json!({"secrets(id0,ts)": desc, "order": p, "cut": cut}), json!({"a": a.latest().map(|s| (s.id()[0], s.timestamp())), "b": b.latest().map(|s| (s.id()[0], s.timestamp())), "want": want.as_ref().map(|s| (s.id()[0], s.timestamp()))}), &["group_secret::SecretBundle::extend.ensures#wf"]);
                    }
                }
                // remove each
                for i in 0..k {
                    let (y2, _) = SecretBundle::remove(bundle(&ord), &fam[i].id());
                    let rest: Vec<GroupSecret> = fam.iter().enumerate().filter(|(j, _)| *j != i).map(|(_, s)| s.clone()).collect();
                    n += 1;
                    if y2.latest().cloned() != max_of(&rest) {
                        rep("remove-then-latest", json!({"secrets(id0,ts)": desc, "order": p, "removed": i}), json!({"latest": y2.latest().map(|s| (s.id()[0], s.timestamp())), "want": max_of(&rest).map(|s| (s.id()[0], s.timestamp()))}), &["group_secret::SecretBundle::remove.ensures#wf"]);
                    }
                }
            }
            // generate: strictly later than everything, also with far-future timestamps
            for bump in [0u64, 1 << 40] {
                let fam2: Vec<GroupSecret> = fam.iter().map(|s| GroupSecret::new([s.id()[0]; 32], s.timestamp() + bump)).collect();
                let fam2: Vec<GroupSecret> = fam2.into_iter().collect();
                let y = bundle(&fam2);
                let rng = Rng::from_seed([7; 32]);
                if let Ok(s) = SecretBundle::generate(&y, &rng) {
                    n += 1;
                    let lt = y.latest().map(|l| l.timestamp()).unwrap_or(0);
                    if !(s.timestamp() > lt) && y.latest().is_some() {
                        rep("generated-not-later", json!({"bundle_latest_ts": lt}), json!({"generated_ts": s.timestamp()}), &["group_secret::SecretBundle::generate.ensures#strictly_later_than_latest"]);
                    }
                }
            }
        }
    }
    println!("{}", json!({"summary": true, "evaluations": n, "violating_classes": reported}));
}
