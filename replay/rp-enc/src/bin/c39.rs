//! C39 replay (totality, key-registry path): the real KeyRegistry::add_longterm_bundle — reached from
//! p2panda-spaces Manager::process -> IdentityManager::process_key_bundle -> register_member for every KeyBundle
//! message a remote peer sends — with two valid bundles of the same member carrying DIFFERENT identity keys.
use std::time::{SystemTime, UNIX_EPOCH};

use p2panda_encryption::Rng;
use p2panda_encryption::crypto::x25519::SecretKey;
use p2panda_encryption::key_bundle::{Lifetime, LongTermKeyBundle, PreKey};
use p2panda_encryption::key_registry::KeyRegistry;
use serde_json::json;

fn main() {
    let _a = rp_core::args();
    let rng = Rng::from_seed([3; 32]);
    let t = SystemTime::now().duration_since(UNIX_EPOCH).unwrap().as_secs();
    let mk = |identity: &SecretKey| {
        let s = SecretKey::from_bytes(rng.random_array().unwrap());
        let p = PreKey::new(s.verifying_key().unwrap(), Lifetime::from_range(t - 60, t + 600));
        let sig = p.sign(identity, &rng).unwrap();
        LongTermKeyBundle::new(identity.verifying_key().unwrap(), p, sig)
    };
    let id1 = SecretKey::from_bytes(rng.random_array().unwrap());
    let id2 = SecretKey::from_bytes(rng.random_array().unwrap());
    let mut reported = std::collections::BTreeSet::new();
    let r = std::panic::catch_unwind(std::panic::AssertUnwindSafe(|| {
        let y = KeyRegistry::<usize>::init();
        let y = KeyRegistry::add_longterm_bundle(y, 7usize, mk(&id1)).expect("first bundle accepted");
        KeyRegistry::add_longterm_bundle(y, 7usize, mk(&id2)).map(|_| ()).map_err(|e| e.to_string())
    }));
    if let Err(p) = r {
        let msg = p.downcast_ref::<String>().cloned().or(p.downcast_ref::<&str>().map(|s| s.to_string())).unwrap_or_default();
        if reported.insert("second-key-bundle-with-different-identity-key-panics") {
            rp_core::report(true, "second-key-bundle-with-different-identity-key-panics", json!({"member": 7, "bundles": ["valid bundle, identity key K1", "valid bundle, identity key K2"]}), json!({"panic": msg.chars().take(160).collect::<String>()}),
                &["key_registry::KeyRegistry::add_longterm_bundle.safety", "key_registry::KeyRegistry::add_onetime_bundle.safety"]);
        }
    }
    println!("{}", json!({"summary": true, "evaluations": 1, "distinct_nontrivial": 2, "exhaustive": false, "rule": "two valid long-term bundles for one member with different identity keys; panic = violation", "bound": "1 scenario", "samples": [{"member": 7}], "violating_classes": reported}));
}
