//! C34 replay: the real DecryptionRatchet against the sender's RatchetSecret chain. For several window configurations
//! (including ooo_tolerance > maximum_forward_distance) and every delivery order of generations 0..6 with repeats, the
//! receiver must hand out exactly the sender's key material for a generation, at most once, must accept every
//! generation inside both windows that was not used yet, and must reject generations outside the windows.
use p2panda_encryption::crypto::Secret;
use p2panda_encryption::message_scheme::ratchet::{DecryptionRatchet, RatchetError, RatchetSecret};
use serde_json::json;

fn secret(b: u8) -> Secret<32> { serde_json::from_value(json!(vec![b; 32])).expect("Secret deserialises from bytes") }
fn perms(n: usize) -> Vec<Vec<usize>> {
    if n == 0 { return vec![vec![]]; }
    let mut out = vec![];
    for p in perms(n - 1) { for i in 0..=p.len() { let mut q = p.clone(); q.insert(i, n - 1); out.push(q); } }
    out
}

fn main() {
    let a = rp_core::args();
    let mut n = 0u64;
    let mut reported = std::collections::BTreeSet::new();
    let obl = ["ratchet::DecryptionRatchet::secret_for_decryption.ensures#yields_the_senders_key", "ratchet::DecryptionRatchet::secret_for_decryption.ensures#handed_out_at_most_once", "ratchet::DecryptionRatchet::secret_for_decryption.ensures#already_used_rejected",
        "ratchet::DecryptionRatchet::secret_for_decryption.ensures#keys_inside_ooo_window_available", "ratchet::DecryptionRatchet::secret_for_decryption.ensures#too_far_in_the_future_rejected", "ratchet::DecryptionRatchet::secret_for_decryption.ensures#too_far_in_the_past_rejected",
        "ratchet::DecryptionRatchet::secret_for_decryption.safety", "ratchet::RatchetSecret::ratchet_forward.ensures#key_of_current_generation"];
    let gens = if a.tier == "thorough" { 7 } else { 6 };
    // sender's key material per generation
    let mut sender = RatchetSecret::init(secret(9));
    let mut keys = vec![];
    for _ in 0..(gens + 4) { let (y, g, k) = RatchetSecret::ratchet_forward(sender).unwrap(); sender = y; keys.push((g, k)); }
    // incl. forward distances at the top of the u32 range ("unlimited"): head + distance does not fit a u32 there
    for (max_fwd, ooo) in [(100u32, 100u32), (2, 8), (8, 2), (1, 1), (3, 0), (u32::MAX, 3), (u32::MAX - 2, 3)] {
        for p in perms(gens) {
            let mut y = DecryptionRatchet::init(secret(9));
            // reference model: head = next generation to derive; used = handed out; a generation g < head is retained iff head - g <= ooo
            let mut head = 0u32;
            let mut used = std::collections::BTreeSet::new();
            // deliver the permutation, then every generation once more (repeats)
            let order: Vec<u32> = p.iter().map(|g| *g as u32).chain(0..gens as u32).collect();
            let mut failed = false;
            for (step, g) in order.iter().enumerate() {
                n += 1;
                let want_future_reject = *g > head.saturating_add(max_fwd);
                let want_past_reject = *g < head && head - *g > ooo;
                let want_ok = !want_future_reject && !want_past_reject && !used.contains(g);
                let res = DecryptionRatchet::secret_for_decryption(y.clone(), *g, max_fwd, ooo);
                let inp = json!({"maximum_forward_distance": max_fwd, "ooo_tolerance": ooo, "delivery_order": order[..=step].to_vec(), "requested_generation": g, "ratchet_head": head});
                match res {
                    Ok((y2, k)) => {
                        let class = if !want_ok { Some(if used.contains(g) { "key-handed-out-twice" } else { "generation-outside-window-accepted" }) }
                            else if k != keys[*g as usize].1 { Some("key-differs-from-the-senders") } else { None };
                        if let Some(c) = class { if reported.insert(c) { rp_core::report(true, c, inp, json!({"result": "Ok"}), &obl); } failed = true; }
                        used.insert(*g);
                        if *g >= head { head = *g + 1; }
                        // keys older than the out-of-order window are dropped for good
                        y = y2;
                    }
                    Err(e) => {
                        let kind = match e { RatchetError::TooDistantInTheFuture => "future", RatchetError::TooDistantInThePast => "past", _ => "other" };
                        let class = if want_ok { Some("available-generation-rejected") }
                            else if want_future_reject && kind != "future" { Some("wrong-rejection-reason") } else { None };
                        if let Some(c) = class { if reported.insert(c) { rp_core::report(true, c, inp, json!({"result": format!("Err({e})")}), &obl); } failed = true; }
                    }
                }
                if failed { break; }
            }
        }
    }
    println!("{}", json!({"summary": true, "evaluations": n, "distinct_nontrivial": n, "exhaustive": true,
        "rule": "real DecryptionRatchet vs the sender's ratchet_forward chain and a window model, all delivery orders of the first generations followed by a repeat of each, 5 window configurations (incl. ooo_tolerance > maximum_forward_distance and 0)",
        "bound": format!("{gens} generations, 5 configurations"), "violating_classes": reported}));
}
