//! C38 replay: the real KeyRegistry: a key bundle whose lifetime is not currently valid is never accepted and
//! never returned. A one-time bundle valid for 2 more seconds is added, the clock advances 3 s (real sleep: the
//! crate reads SystemTime::now() directly), then it is requested.
use std::time::{Duration, SystemTime, UNIX_EPOCH};

use p2panda_encryption::Rng;
use p2panda_encryption::crypto::x25519::SecretKey;
use p2panda_encryption::key_bundle::{Lifetime, LongTermKeyBundle, OneTimeKeyBundle, OneTimePreKey, PreKey};
use p2panda_encryption::key_registry::KeyRegistry;
use p2panda_encryption::traits::{KeyBundle, PreKeyRegistry};
use serde_json::json;

fn now() -> u64 { SystemTime::now().duration_since(UNIX_EPOCH).unwrap().as_secs() }

fn main() {
    let _a = rp_core::args();
    let rng = Rng::from_seed([1; 32]);
    let mut reported = std::collections::BTreeSet::new();
    let mut n = 0u64;
    let identity = SecretKey::from_bytes(rng.random_array().unwrap());
    let mk_prekey = |from: u64, until: u64| {
        let s = SecretKey::from_bytes(rng.random_array().unwrap());
        let p = PreKey::new(s.verifying_key().unwrap(), Lifetime::from_range(from, until));
        let sig = p.sign(&identity, &rng).unwrap();
        (p, sig)
    };
    let t = now();
    // acceptance: expired / not-yet-valid bundles are rejected
    for (label, from, until) in [("expired", t - 60, t - 30), ("not yet valid", t + 30, t + 60)] {
        let (p, sig) = mk_prekey(from, until);
        let lt = LongTermKeyBundle::new(identity.verifying_key().unwrap(), p, sig);
        n += 1;
        if KeyRegistry::<usize>::add_longterm_bundle(KeyRegistry::init(), 0usize, lt).is_ok() {
            if reported.insert("invalid-lifetime-accepted") { rp_core::report(true, "invalid-lifetime-accepted", json!({"bundle": label}), json!("add_longterm_bundle returned Ok"), &["key_registry::KeyRegistry::add_longterm_bundle.ensures#only_currently_valid_bundles_accepted"]); }
        }
    }
    // acceptance: a bundle whose pre-key signature was made by another key (forged rotation) is rejected, for an
    // unknown member and for a member whose identity key is already known from a genuine bundle
    let attacker = SecretKey::from_bytes(rng.random_array().unwrap());
    for known in [false, true] {
        for onetime_kind in [false, true] {
            let mut y = KeyRegistry::<usize>::init();
            if known {
                let (p, sig) = mk_prekey(t - 60, t + 3600);
                y = KeyRegistry::add_longterm_bundle(y, 0usize, LongTermKeyBundle::new(identity.verifying_key().unwrap(), p, sig)).expect("genuine bundle");
            }
            let s = SecretKey::from_bytes(rng.random_array().unwrap());
            let p = PreKey::new(s.verifying_key().unwrap(), Lifetime::from_range(t - 60, t + 7200));
            let sig = p.sign(&attacker, &rng).unwrap();
            n += 1;
            let accepted = if onetime_kind {
                let ots = SecretKey::from_bytes(rng.random_array().unwrap());
                KeyRegistry::add_onetime_bundle(y, 0usize, OneTimeKeyBundle::new(identity.verifying_key().unwrap(), p, sig, Some(OneTimePreKey::new(ots.verifying_key().unwrap(), 7)))).is_ok()
            } else {
                KeyRegistry::add_longterm_bundle(y, 0usize, LongTermKeyBundle::new(identity.verifying_key().unwrap(), p, sig)).is_ok()
            };
            if accepted && reported.insert("forged-signature-accepted") {
                rp_core::report(true, "forged-signature-accepted", json!({"bundle": if onetime_kind { "one-time" } else { "long-term" }, "member_identity_already_known": known, "prekey_signed_by": "another key"}), json!("add_*_bundle returned Ok"),
                    &["key_registry::KeyRegistry::add_longterm_bundle.ensures#only_currently_valid_bundles_accepted", "key_registry::KeyRegistry::add_longterm_bundle.ensures#invalid_bundle_rejected", "key_registry::KeyRegistry::add_onetime_bundle.ensures#only_currently_valid_bundles_accepted", "key_registry::KeyRegistry::add_onetime_bundle.ensures#invalid_bundle_rejected"]);
            }
        }
    }
    // retrieval (long-term): a valid bundle followed by one that is NOT YET valid but expires later must not be returned
    {
        let (p_ok, s_ok) = mk_prekey(t - 60, t + 600);
        let (p_early, s_early) = mk_prekey(t + 300, t + 9000);
        let y = KeyRegistry::<usize>::init();
        let y = KeyRegistry::add_longterm_bundle(y, 5usize, LongTermKeyBundle::new(identity.verifying_key().unwrap(), p_ok, s_ok)).expect("valid when added");
        // the too-early bundle cannot be added through the API (it is rejected): put it into the stored state the way a
        // deserialised registry would carry it
        let mut v = serde_json::to_value(&y).expect("state serialises");
        let early = serde_json::to_value(LongTermKeyBundle::new(identity.verifying_key().unwrap(), p_early, s_early)).unwrap();
        let mut pushed = false;
        if let Some(m) = v.get_mut("longterm_bundles").and_then(|m| m.as_object_mut()) { for (_k, list) in m.iter_mut() { if let Some(a) = list.as_array_mut() { a.push(early.clone()); pushed = true; } } }
        if pushed { if let Ok(y2) = serde_json::from_value(v) {
            n += 1;
            if let Ok((_, Some(b))) = <KeyRegistry<usize> as PreKeyRegistry<usize, LongTermKeyBundle>>::key_bundle(y2, &5usize) {
                if b.verify().is_err() && reported.insert("not-yet-valid-longterm-bundle-returned") {
                    rp_core::report(true, "not-yet-valid-longterm-bundle-returned", json!({"stored": ["valid now, expires in 10 min", "valid from in 5 min, expires in 150 min"]}), json!({"returned_bundle_verifies": false}),
                        &["key_registry::latest_key_bundle.ensures#returns_a_currently_valid_bundle_of_the_list", "key_registry::latest_key_bundle.loop1.invariant#latest_is_a_valid_visited_bundle", "key_registry::PreKeyRegistry@KeyRegistry::key_bundle#2.ensures#returned_bundle_currently_valid_and_authentic"]);
                }
            }
        } }
    }
    // retrieval: short-lived bundles expire while stored
    let (p1, s1) = mk_prekey(t - 60, t + 2);
    let ot_secret = SecretKey::from_bytes(rng.random_array().unwrap());
    let onetime = OneTimeKeyBundle::new(identity.verifying_key().unwrap(), p1, s1, Some(OneTimePreKey::new(ot_secret.verifying_key().unwrap(), 1)));
    let (p2, s2) = mk_prekey(t - 60, t + 2);
    let longterm = LongTermKeyBundle::new(identity.verifying_key().unwrap(), p2, s2);
    let y = KeyRegistry::<usize>::init();
    let y = KeyRegistry::add_onetime_bundle(y, 0usize, onetime).expect("valid when added");
    let y = KeyRegistry::add_longterm_bundle(y, 0usize, longterm).expect("valid when added");
    // member 1: a stack of one-time bundles in which SEVERAL consecutive ones expire while stored, on top of a long-lived one
    let mut y = y;
    for (k, until) in [(0u64, t + 3600), (1, t + 2), (2, t + 2), (3, t + 2)] {
        let (p, sg) = mk_prekey(t - 60, until);
        let ots = SecretKey::from_bytes(rng.random_array().unwrap());
        y = KeyRegistry::add_onetime_bundle(y, 1usize, OneTimeKeyBundle::new(identity.verifying_key().unwrap(), p, sg, Some(OneTimePreKey::new(ots.verifying_key().unwrap(), 10 + k)))).expect("valid when added");
    }
    std::thread::sleep(Duration::from_secs(4));
    n += 3;
    let mut y = y;
    for round in 0..2 {
        let (y2, got) = <KeyRegistry<usize> as PreKeyRegistry<usize, OneTimeKeyBundle>>::key_bundle(y, &1usize).unwrap();
        y = y2;
        match got {
            Some(b) => if b.verify().is_err() && reported.insert("expired-onetime-bundle-returned") {
                rp_core::report(true, "expired-onetime-bundle-returned", json!({"stored_one_time_bundles(oldest first)": ["valid for 1 h", "valid for 2 s", "valid for 2 s", "valid for 2 s"], "requested_after_s": 4, "request": round}), json!({"returned": true, "returned_bundle_verifies": false}),
                    &["key_registry::PreKeyRegistry@KeyRegistry::key_bundle#1.ensures#returned_bundle_currently_valid", "key_registry::PreKeyRegistry@KeyRegistry::key_bundle#1.safety"]);
            },
            None => if round == 0 && reported.insert("valid-onetime-bundle-not-returned") {
                rp_core::report(true, "valid-onetime-bundle-not-returned", json!({"stored_one_time_bundles(oldest first)": ["valid for 1 h", "valid for 2 s", "valid for 2 s", "valid for 2 s"], "requested_after_s": 4}), json!({"returned": false}),
                    &["key_registry::PreKeyRegistry@KeyRegistry::key_bundle#1.ensures#returned_bundle_currently_valid", "key_registry::PreKeyRegistry@KeyRegistry::key_bundle#1.safety"]);
            },
        }
    }
    let (y, got) = <KeyRegistry<usize> as PreKeyRegistry<usize, OneTimeKeyBundle>>::key_bundle(y, &0usize).unwrap();
    if let Some(b) = got {
        if b.verify().is_err() && reported.insert("expired-onetime-bundle-returned") {
            rp_core::report(true, "expired-onetime-bundle-returned", json!({"bundle": "one-time bundle valid for 2 s when added", "requested_after_s": 4}), json!({"returned": true, "returned_bundle_verifies": false}),
                &["key_registry::PreKeyRegistry@KeyRegistry::key_bundle#1.ensures#returned_bundle_currently_valid"]);
        }
    }
    match <KeyRegistry<usize> as PreKeyRegistry<usize, LongTermKeyBundle>>::key_bundle(y, &0usize) {
        Ok((_, Some(b))) => if b.verify().is_err() && reported.insert("expired-longterm-bundle-returned") {
            rp_core::report(true, "expired-longterm-bundle-returned", json!({"bundle": "long-term bundle valid for 2 s when added"}), json!({"returned_bundle_verifies": false}), &["key_registry::PreKeyRegistry@KeyRegistry::key_bundle#2.ensures#returned_bundle_currently_valid"]);
        },
        _ => {}
    }
    println!("{}", json!({"summary": true, "evaluations": n, "distinct_nontrivial": n, "exhaustive": false, "rule": "2 invalid-lifetime + 4 forged-signature acceptance attempts (member known/unknown x long-term/one-time) + retrieval of a one-time and a long-term bundle 4 s after they were added with 2 s of validity left",
        "bound": "8 scenarios, real clock", "samples": [{"bundle": "one-time, valid 2 s"}], "violating_classes": reported}));
}
