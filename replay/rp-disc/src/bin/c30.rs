//! C30 replay: the real PsiHashDiscoveryProtocol (alice / bob over in-memory channels, SQLite address books) for every
//! pair of topic sets over 3 topics, restricted and unrestricted sharing. Checked: both sides obtain exactly the
//! intersection; no serialized protocol message contains the raw bytes of any topic; with restricted sharing the node
//! infos a side sends are limited to nodes of common topics plus itself. Plus a subscription that changes between two
//! reads (the protocol must work from one snapshot of its topics).
use std::collections::HashSet;
use std::convert::Infallible;
use std::sync::Arc;
use std::sync::atomic::{AtomicUsize, Ordering};

use futures_channel::mpsc;
use futures_util::StreamExt;
use p2panda_core::{SigningKey, Topic};
use p2panda_core::cbor::encode_cbor;
use p2panda_discovery::DiscoveryProtocol;
use p2panda_discovery::traits::LocalTopics;
use p2panda_discovery::psi_hash::{Config, PsiHashDiscoveryProtocol};
use p2panda_store::address_book::AddressBookStore;
use p2panda_store::address_book::test_utils::{TestNodeId, TestNodeInfo};
use p2panda_store::{SqliteStore, tx_unwrap};
use rand::SeedableRng;
use rand_chacha::ChaCha20Rng;
use serde_json::json;

/// topics() returns `first` on the first call and `later` afterwards
#[derive(Clone)]
struct Shifting { calls: Arc<AtomicUsize>, first: HashSet<Topic>, later: HashSet<Topic> }
impl LocalTopics for Shifting {
    type Error = Infallible;
    async fn topics(&self) -> Result<HashSet<Topic>, Self::Error> {
        Ok(if self.calls.fetch_add(1, Ordering::SeqCst) == 0 { self.first.clone() } else { self.later.clone() })
    }
}

async fn insert_node(store: &SqliteStore, rng: &mut ChaCha20Rng, id: TestNodeId, topics: Vec<Topic>) {
    let topics: HashSet<Topic> = topics.into_iter().collect();
    tx_unwrap!(store, {
        store.insert_node_info(TestNodeInfo::new(id).with_random_address(rng)).await.unwrap();
        <SqliteStore as AddressBookStore<TestNodeId, TestNodeInfo>>::set_topics(store, id, topics).await.unwrap();
    });
}

fn contains_raw(bytes: &[u8], t: &Topic) -> bool { bytes.windows(32).any(|w| w == t.as_bytes()) }

#[tokio::main]
async fn main() {
    let _a = rp_core::args();
    let mut rng = ChaCha20Rng::from_seed([7; 32]);
    // two topic families: unrelated byte patterns, and near-identical topics (a base topic and two that differ from it in
    // the first resp. the last byte only)
    let near = |pos: usize| { let mut b = [0x5Au8; 32]; b[pos] ^= 0x01; Topic::from(b) };
    let families: [Vec<Topic>; 2] = [(1..=3u8).map(|i| Topic::from([i * 17; 32])).collect(), vec![Topic::from([0x5Au8; 32]), near(0), near(31)]];
    let (alice, bob) = (SigningKey::generate().verifying_key(), SigningKey::generate().verifying_key());
    // one extra node per topic in each address book
    let extra_a: Vec<TestNodeId> = (0..3).map(|_| SigningKey::generate().verifying_key()).collect();
    let extra_b: Vec<TestNodeId> = (0..3).map(|_| SigningKey::generate().verifying_key()).collect();
    let mut n = 0u64;
    let mut reported = std::collections::BTreeSet::new();
    let obl: [&str; 0] = [];
    for (family, topics) in families.iter().enumerate() { for amask in 0..8u8 { for bmask in 0..8u8 { for restricted in [true, false] { for shifting in [false, true] {
        if shifting && !(amask == 0b011 && bmask == 0b001) { continue; }
        n += 1;
        let ta: HashSet<Topic> = (0..3).filter(|i| amask >> i & 1 == 1).map(|i| topics[i]).collect();
        let tb: HashSet<Topic> = (0..3).filter(|i| bmask >> i & 1 == 1).map(|i| topics[i]).collect();
        // when `shifting`, Bob's subscription gains topic 2 (which Alice also has) after his first read
        let tb_later: HashSet<Topic> = if shifting { tb.iter().cloned().chain([topics[1]]).collect() } else { tb.clone() };
        let want: HashSet<Topic> = ta.intersection(&tb).cloned().collect();
        let (sa, sb) = (SqliteStore::temporary().await, SqliteStore::temporary().await);
        insert_node(&sa, &mut rng, alice, ta.iter().cloned().collect()).await;
        insert_node(&sb, &mut rng, bob, tb.iter().cloned().collect()).await;
        for i in 0..3 { insert_node(&sa, &mut rng, extra_a[i], vec![topics[i]]).await; insert_node(&sb, &mut rng, extra_b[i], vec![topics[i]]).await; }
        let cfg = Config { share_nodes_with_common_topics: restricted };
        let pa = PsiHashDiscoveryProtocol::<_, _, TestNodeId, TestNodeInfo>::with_config(sa, Shifting { calls: Default::default(), first: ta.clone(), later: ta.clone() }, alice, bob, cfg.clone());
        let pb = PsiHashDiscoveryProtocol::<_, _, TestNodeId, TestNodeInfo>::with_config(sb, Shifting { calls: Default::default(), first: tb.clone(), later: tb_later.clone() }, bob, alice, cfg);
        let (mut atx, arx) = mpsc::channel(16);
        let (mut btx, brx) = mpsc::channel(16);
        let wire: Arc<std::sync::Mutex<Vec<Vec<u8>>>> = Default::default();
        let (w1, w2) = (wire.clone(), wire.clone());
        let bh = tokio::task::spawn(async move {
            let mut arx = arx.map(move |m| { w1.lock().unwrap().push(encode_cbor(&m).unwrap()); Ok::<_, ()>(m) });
            pb.bob(&mut btx, &mut arx).await.map_err(|e| e.to_string())
        });
        let mut brx = brx.map(move |m| { w2.lock().unwrap().push(encode_cbor(&m).unwrap()); Ok::<_, ()>(m) });
        let ra = pa.alice(&mut atx, &mut brx).await.map_err(|e| e.to_string());
        let rb = bh.await.unwrap();
        let inp = json!({"alice_topics(mask)": amask, "bob_topics(mask)": bmask, "topic_family": if family == 0 { "unrelated" } else { "near-identical (base, first byte flipped, last byte flipped)" }, "restricted_sharing": restricted, "bob_subscription_changes_mid_session": shifting});
        let mut rep = |c: &str, o: serde_json::Value| { if reported.insert(c.to_string()) { rp_core::report(true, c, inp.clone(), o, &obl); } };
        let (Ok(ra), Ok(rb)) = (ra, rb) else { rep("protocol-run-failed", json!("alice or bob returned an error")); continue; };
        if ra.topics != want || rb.topics != want {
            rep(if shifting { "result-not-the-intersection-of-one-topic-snapshot" } else { "result-is-not-the-intersection" }, json!({"alice": ra.topics.len(), "bob": rb.topics.len(), "want": want.len(), "alice_ok": ra.topics == want, "bob_ok": rb.topics == want}));
        }
        for m in wire.lock().unwrap().iter() { for t in ta.union(&tb_later) { if contains_raw(m, t) { rep("raw-topic-on-the-wire", json!({"message_len": m.len()})); } } }
        if restricted && !shifting {
            // what Bob learned came from Alice and vice versa: only the sender itself and nodes of common topics
            let allowed_from_alice: HashSet<TestNodeId> = [alice].into_iter().chain((0..3).filter(|i| want.contains(&topics[*i])).map(|i| extra_a[i])).collect();
            let allowed_from_bob: HashSet<TestNodeId> = [bob].into_iter().chain((0..3).filter(|i| want.contains(&topics[*i])).map(|i| extra_b[i])).collect();
            if rb.transport_infos.keys().any(|k| !allowed_from_alice.contains(k)) { rep("initiator-shares-node-outside-common-topics", json!({"shared": rb.transport_infos.len(), "allowed": allowed_from_alice.len()})); }
            if ra.transport_infos.keys().any(|k| !allowed_from_bob.contains(k)) { rep("acceptor-shares-node-outside-common-topics", json!({"shared": ra.transport_infos.len(), "allowed": allowed_from_bob.len()})); }
        }
    } } } } }
    println!("{}", json!({"summary": true, "evaluations": n, "distinct_nontrivial": n, "exhaustive": true,
        "rule": "real alice/bob over channels for all 8x8 topic-set pairs over 3 topics (unrelated, and one byte apart) x restricted/unrestricted sharing, address books with one extra node per topic; + one run where Bob's subscription changes between two reads",
        "bound": "3 topics, 3 extra nodes per side", "violating_classes": reported}));
}
