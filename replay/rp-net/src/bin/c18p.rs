//! C18 BOUNDED stand-in (self-publish path): the real AddressBookDiscovery::publish (hook iroh_endpoint::verif) with a real
//! AddressBook actor and a mock wall clock. A node publishes a record with an address, then — with the clock stepped back,
//! frozen or advanced — a record without addresses, then again one with an address: every later self-published record must be
//! accepted by the address book as newer than the previous one.
use std::time::Duration;

use iroh::address_lookup::{AddressLookup, EndpointData};
use mock_instant::thread_local::MockClock;
use p2panda_core::SigningKey;
use p2panda_net::address_book::AddressBook;
use p2panda_net::addrs::{NodeTransportInfo, TransportInfo};
use p2panda_net::iroh_endpoint::verif::AddressBookDiscovery;
use serde_json::json;

async fn wait_for(address_book: &AddressBook, id: p2panda_net::NodeId, cond: impl Fn(&TransportInfo) -> bool) -> Option<TransportInfo> {
    for _ in 0..2400 {
        let t = address_book.node_info(id).await.ok().flatten().and_then(|n| n.transports);
        if let Some(t) = t { if cond(&t) { return Some(t); } }
        tokio::time::sleep(Duration::from_millis(25)).await;
    }
    None
}

#[tokio::main(flavor = "current_thread")]
async fn main() {
    let _a = rp_core::args();
    let mut n = 0u64;
    let mut reported = std::collections::BTreeSet::new();
    for (first, second, third) in [(100u64, 40u64, 30u64), (100, 100, 100), (100, 160, 150), (1_700_000_000, 1_699_999_999, 1_700_000_000)] {
        n += 1;
        MockClock::set_system_time(Duration::from_secs(first));
        let sk = SigningKey::generate();
        let id = sk.verifying_key();
        let book = AddressBook::builder().spawn().await.unwrap();
        let d = AddressBookDiscovery::new(sk, book.clone());
        let addr = |p: u16| EndpointData::new(vec![iroh::TransportAddr::Ip(format!("127.0.0.1:{p}").parse().unwrap())]);
        d.publish(&addr(2022));
        let Some(r1) = wait_for(&book, id, |t| !t.is_empty()).await else { continue };
        MockClock::set_system_time(Duration::from_secs(second));
        d.publish(&EndpointData::default());
        let r2 = wait_for(&book, id, |t| t.is_empty()).await;
        MockClock::set_system_time(Duration::from_secs(third));
        d.publish(&addr(2023));
        let r3 = if r2.is_some() { wait_for(&book, id, |t| !t.is_empty() && t.timestamp() != r1.timestamp()).await } else { None };
        let ok = r2.as_ref().map(|x| x.timestamp() > r1.timestamp()).unwrap_or(false) && r3.as_ref().zip(r2.as_ref()).map(|(c, b)| c.timestamp() > b.timestamp()).unwrap_or(false);
        if !ok && reported.insert("self-published-record-not-accepted-as-newer") {
            rp_core::report(true, "self-published-record-not-accepted-as-newer", json!({"clock_seconds_at_the_three_publishes": [first, second, third], "publishes": ["with address", "without addresses", "with another address"]}),
                json!({"second_accepted": r2.is_some(), "third_accepted": r3.is_some()}), &["timestamp::UnsignedTransportInfo::increment_timestamp.ensures#newer_than_previous_record"]);
        }
    }
    println!("{}", json!({"summary": true, "function": "p2panda-net/src/iroh_endpoint/discovery.rs AddressBookDiscovery::publish (spawned task; caller of increment_timestamp) with the real AddressBook actor",
        "evaluations": n, "distinct_nontrivial": n, "exhaustive": false, "rule": "three successive self-publications (address, no address, address) with the mock clock stepped back / frozen / advanced between them; each must replace the stored record",
        "bound": "4 clock profiles", "violating_classes": reported}));
}
