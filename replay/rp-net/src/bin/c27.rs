//! C27 replay: the real NodeInfo::update_transports / verify: over all arrival orders of a family of records
//! (authentic with various hybrid timestamps, forged signature, signed for another node, trusted with matching /
//! mismatching endpoint id) the stored record is the newest authentic one and forged/mismatched ones never enter.
use p2panda_core::SigningKey;
use p2panda_core::timestamp::{HybridTimestamp, LamportTimestamp, Timestamp};
use p2panda_net::addrs::{NodeInfo, NodeMetrics, NodeTransportInfo, TransportAddress, TransportInfo, TrustedTransportInfo, UnsignedTransportInfo};
use serde_json::json;

fn perms(n: usize) -> Vec<Vec<usize>> {
    if n == 0 { return vec![vec![]]; }
    let mut out = vec![];
    for p in perms(n - 1) { for i in 0..=p.len() { let mut q = p.clone(); q.insert(i, n - 1); out.push(q); } }
    out
}

fn main() {
    let _a = rp_core::args();
    let me = SigningKey::generate();
    let id = me.verifying_key();
    let other = SigningKey::generate();
    let ts = |t: u64, l: u64| HybridTimestamp::from_parts(Timestamp::new(t), LamportTimestamp::new(l));
    let signed = |key: &SigningKey, for_id, t: HybridTimestamp| -> TransportInfo {
        let mut u = UnsignedTransportInfo::new();
        u.add_addr(TransportAddress::from_iroh(for_id, None, []));
        u.timestamp = t;
        u.sign(key).unwrap().into()
    };
    let trusted = |for_id, t: HybridTimestamp| -> TransportInfo {
        let mut u = TrustedTransportInfo::new();
        u.add_addr(TransportAddress::from_iroh(for_id, None, []));
        u.timestamp = t;
        u.into()
    };
    // (label, record, authentic for `id`?)
    let recs: Vec<(&str, TransportInfo, bool)> = vec![
        ("authentic (100,3)", signed(&me, id, ts(100, 3)), true),
        ("authentic (200,0)", signed(&me, id, ts(200, 0)), true),
        ("authentic (200,1)", signed(&me, id, ts(200, 1)), true),
        ("forged: signed by other key, claims my addresses (900,0)", signed(&other, id, ts(900, 0)), false),
        ("trusted, matching id (150,9)", trusted(id, ts(150, 9)), true),
        ("tampered: authentic record (960,0) with an unsigned address prepended, signature kept", {
            let mut u = UnsignedTransportInfo::new();
            u.add_addr(TransportAddress::from_iroh(id, None, []));
            u.timestamp = ts(960, 0);
            let mut a = u.sign(&me).unwrap();
            a.addresses.insert(0, TransportAddress::from_iroh(other.verifying_key(), None, []));
            a.into()
        }, false),
        ("trusted, endpoint id of another node (950,0)", trusted(other.verifying_key(), ts(950, 0)), false),
    ];
    let mut n = 0u64;
    let mut reported = std::collections::BTreeSet::new();
    for p in perms(recs.len()) {
        let mut node = NodeInfo { node_id: id, bootstrap: false, transports: None, metrics: NodeMetrics::default() };
        let mut best: Option<HybridTimestamp> = None;
        let mut order = vec![];
        for i in p {
            let (label, rec, authentic) = &recs[i];
            order.push(*label);
            let r = node.update_transports(rec.clone());
            n += 1;
            if *authentic { let t = rec.timestamp(); if best.map(|b| t > b).unwrap_or(true) { best = Some(t); } }
            let stored = node.transports.as_ref().map(|t| t.timestamp());
            let class = if r.is_ok() != *authentic { Some(if *authentic { "authentic-record-rejected" } else { "forged-or-mismatched-record-accepted" }) }
                else if stored != best { Some("stored-record-is-not-the-newest-authentic") }
                else if node.verify().is_err() { Some("stored-record-does-not-verify") } else { None };
            if let Some(c) = class {
                if reported.insert(c) {
                    rp_core::report(true, c, json!({"arrival_order": order.clone()}), json!({"stored_timestamp": stored.map(|t| t.to_string()), "newest_authentic": best.map(|t| t.to_string()), "last_result": format!("{r:?}")}),
                        &["addrs::NodeInfo::update_transports.ensures#replaced_iff_strictly_newer", "addrs::NodeInfo::update_transports.ensures#last_write_wins", "addrs::NodeInfo::update_transports.ensures#forged_or_mismatched_rejected", "addrs::NodeInfo::verify.ensures#ok_iff_stored_record_authentic", "addrs::NodeTransportInfo@TransportInfo::verify.ensures#ok_iff_authentic", "addrs::NodeInfo::update_transports.safety"]);
                }
                break;
            }
        }
    }
    // trusted records with SEVERAL addresses of which one belongs to another node, at every position
    for (label, addrs) in [("trusted [other, me]", vec![other.verifying_key(), id]), ("trusted [me, other]", vec![id, other.verifying_key()]), ("trusted [me, other, me]", vec![id, other.verifying_key(), id]), ("trusted [other, me, me]", vec![other.verifying_key(), id, id])] {
        let mut u = TrustedTransportInfo::new();
        u.timestamp = ts(990, 0);
        u.addresses = addrs.iter().map(|k| TransportAddress::from_iroh(*k, None, [])).collect();
        let rec: TransportInfo = u.into();
        let mut node = NodeInfo { node_id: id, bootstrap: false, transports: None, metrics: NodeMetrics::default() };
        let r = node.update_transports(rec.clone());
        n += 1;
        if (r.is_ok() || node.transports.is_some()) && reported.insert("forged-or-mismatched-record-accepted") {
            rp_core::report(true, "forged-or-mismatched-record-accepted", json!({"record": label}), json!({"result": format!("{r:?}"), "stored": node.transports.is_some()}),
                &["addrs::NodeTransportInfo@TrustedTransportInfo::verify.ensures#ok_iff_all_addresses_match", "addrs::NodeTransportInfo@TrustedTransportInfo::verify.safety", "addrs::NodeInfo::update_transports.ensures#forged_or_mismatched_rejected"]);
        }
    }
    println!("{}", json!({"summary": true, "evaluations": n, "distinct_nontrivial": n, "exhaustive": true,
        "rule": "trusted multi-address records with a foreign address at every position; all 5040 arrival orders of 7 records (3 authentic with timestamps (100,3),(200,0),(200,1); forged signature; trusted matching; trusted mismatching), checked after every update; every step is non-trivial (a record is offered)",
        "bound": "7 records, all permutations", "samples": [{"order": ["authentic (200,0)", "authentic (100,3)"], "expected_stored": "200/0"}], "violating_classes": reported}));
}
