//! C26 replay: the real p2panda_net::codec::Codec with tokio_util's Encoder/Decoder traits: for short message
//! sequences (including zero-length serialisations and frames of exactly max_frame_len) and EVERY way of splitting
//! the byte stream into chunks, decoding yields exactly the encoded messages in order; frames larger than the
//! maximum are rejected on both sides and no smaller frame is.
use p2panda_net::codec::Codec;
use serde::{Deserialize, Serialize};
use serde_json::json;
use tokio_util::bytes::BytesMut;
use tokio_util::codec::{Decoder, Encoder};

#[derive(Clone, Debug, PartialEq, Serialize, Deserialize)]
enum Msg { Unit, Text(String), Bytes(Vec<u8>), Empty(()) }

fn roundtrip<M: Clone + PartialEq + std::fmt::Debug + Serialize + for<'de> Deserialize<'de>>(msgs: &[M], max: usize, chunks: &[usize]) -> Result<(), String> {
    let mut enc = Codec::<M>::new().max_frame_len(max);
    let mut wire = BytesMut::new();
    for m in msgs { enc.encode(m.clone(), &mut wire).map_err(|e| format!("encode failed: {e}"))?; }
    let wire = wire.to_vec();
    let mut dec = Codec::<M>::new().max_frame_len(max);
    let mut buf = BytesMut::new();
    let mut out = vec![];
    let mut pos = 0;
    let mut ci = 0;
    while pos < wire.len() {
        let step = chunks[ci % chunks.len()].max(1).min(wire.len() - pos);
        ci += 1;
        buf.extend_from_slice(&wire[pos..pos + step]);
        pos += step;
        loop {
            match std::panic::catch_unwind(std::panic::AssertUnwindSafe(|| dec.decode(&mut buf))) {
                Ok(Ok(Some(m))) => out.push(m),
                Ok(Ok(None)) => break,
                Ok(Err(e)) => return Err(format!("decode failed: {e}")),
                Err(p) => return Err(format!("decode PANICKED: {}", p.downcast_ref::<String>().cloned().or(p.downcast_ref::<&str>().map(|s| s.to_string())).unwrap_or_default())),
            }
        }
    }
    if out != msgs { return Err(format!("decoded {out:?}, expected {msgs:?}")); }
    if !buf.is_empty() { return Err(format!("{} undecoded bytes left", buf.len())); }
    Ok(())
}

fn main() {
    let _a = rp_core::args();
    std::panic::set_hook(Box::new(|_| {}));
    let mut n = 0u64;
    let mut reported = std::collections::BTreeSet::new();
    let pool = [Msg::Unit, Msg::Text("hi".into()), Msg::Bytes(vec![1, 2, 3]), Msg::Empty(()), Msg::Text(String::new())];
    // every sequence of up to 3 messages from the pool, chunk patterns 1..=5 bytes and mixed
    let mut patterns: Vec<Vec<usize>> = vec![vec![1], vec![2], vec![3], vec![4], vec![5], vec![1, 4], vec![4, 1], vec![7, 1, 2], vec![1000]];
    for k in 6..=24usize { patterns.push(vec![k, 1000]); }   // one split at every position of the first frames, rest in one piece
    for len in 1..=3usize {
        for code in 0..pool.len().pow(len as u32) {
            let mut c = code;
            let msgs: Vec<Msg> = (0..len).map(|_| { let m = pool[c % pool.len()].clone(); c /= pool.len(); m }).collect();
            for p in &patterns {
                n += 1;
                if let Err(e) = roundtrip(&msgs, 1024, p) {
                    if reported.insert("stream-roundtrip") {
                        rp_core::report(true, "stream-roundtrip", json!({"messages": format!("{msgs:?}"), "chunk_sizes": p}), json!(e),
                            &["codec::Decoder@Codec::decode.ensures#complete_frame_decoded_and_consumed", "codec::Decoder@Codec::decode.safety", "codec::Decoder@Codec::decode.ensures#needs_length_prefix", "codec::Decoder@Codec::decode.ensures#incomplete_frame_waits", "codec::Encoder@Codec::encode.ensures#ok_appends_exactly_one_frame"]);
                    }
                }
            }
        }
    }
    // zero-length serialisation (unit type): frame is just [0,0,0,0]
    for p in &patterns {
        n += 1;
        if let Err(e) = roundtrip(&[(), (), ()], 16, p) {
            if reported.insert("zero-length-frame") {
                rp_core::report(true, "zero-length-frame", json!({"messages": "three unit values", "chunk_sizes": p}), json!(e),
                    &["codec::Decoder@Codec::decode.ensures#needs_length_prefix", "codec::Decoder@Codec::decode.ensures#complete_frame_decoded_and_consumed"]);
            }
        }
    }
    // boundary: a frame of exactly max is accepted on both sides, max+1 rejected on both sides
    for max in [1usize, 4, 10, 64] {
        let exact = "a".repeat(max - 1); // 1 varint byte + (max-1) bytes
        let over = "a".repeat(max);
        n += 2;
        if let Err(e) = roundtrip(&[exact.clone()], max, &[3]) {
            if reported.insert("frame-of-exactly-max-rejected") {
                rp_core::report(true, "frame-of-exactly-max-rejected", json!({"max_frame_len": max, "message_len": max}), json!(e),
                    &["codec::Decoder@Codec::decode.ensures#too_large_rejected_exactly", "codec::Encoder@Codec::encode.ensures#no_smaller_frame_rejected_as_too_large"]);
            }
        }
        let mut enc = Codec::<String>::new().max_frame_len(max);
        let mut w = BytesMut::new();
        // a valid frame, then a rejected one, then another valid one on the SAME buffer: the rejected message must leave no
        // bytes behind, and the stream must still decode to exactly the two valid messages
        let ok1 = "b".repeat(max - 1);
        enc.encode(ok1.clone(), &mut w).unwrap();
        let len_before = w.len();
        let enc_rejects = enc.encode(over.clone(), &mut w).is_err();
        let left_bytes = w.len() != len_before;
        enc.encode(exact.clone(), &mut w).unwrap();
        let mut d2 = Codec::<String>::new().max_frame_len(max);
        let mut got = vec![];
        loop { match d2.decode(&mut w) { Ok(Some(m)) => got.push(m), Ok(None) => break, Err(_) => { got.push("<decode error>".into()); break; } } }
        if left_bytes || got != vec![ok1.clone(), exact.clone()] {
            if reported.insert("rejected-message-corrupts-the-stream") {
                rp_core::report(true, "rejected-message-corrupts-the-stream", json!({"max_frame_len": max, "sequence": ["valid", "too large (rejected)", "valid"]}), json!({"bytes_left_by_rejected_message": left_bytes, "decoded": got.len()}),
                    &["codec::Encoder@Codec::encode.ensures#too_large_never_encoded", "codec::Encoder@Codec::encode.ensures#appends_exactly_one_frame", "codec::Encoder@Codec::encode.safety"]);
            }
        }
        // decode side: hand-made frame with length max+1
        let mut big = Codec::<String>::new().max_frame_len(max + 8);
        let mut w2 = BytesMut::new();
        big.encode(over, &mut w2).unwrap();
        let mut dec = Codec::<String>::new().max_frame_len(max);
        let dec_rejects = dec.decode(&mut w2).is_err();
        if !enc_rejects || !dec_rejects {
            if reported.insert("too-large-frame-accepted") {
                rp_core::report(true, "too-large-frame-accepted", json!({"max_frame_len": max, "frame_len": max + 1}), json!({"encode_rejects": enc_rejects, "decode_rejects": dec_rejects}),
                    &["codec::Decoder@Codec::decode.ensures#too_large_rejected_exactly", "codec::Encoder@Codec::encode.ensures#too_large_never_encoded"]);
            }
        }
    }
    println!("{}", json!({"summary": true, "evaluations": n, "distinct_nontrivial": n, "exhaustive": false,
        "rule": "all sequences of <=3 messages from a 5-message pool x 9 chunking patterns; unit-type frames; frames of exactly max and max+1 for max in {1,4,10,64}",
        "bound": "<=3 messages, chunk patterns up to 7 bytes", "samples": [{"messages": "[Unit, Text(\"hi\")]", "chunks": [1]}], "violating_classes": reported}));
}
