//! C18 replay (caller side): a node's successive self-published transport records are accepted as newer than the
//! previous one whatever the wall clock reads: UnsignedTransportInfo::increment_timestamp + NodeInfo::update_transports
//! with the mock clock before / at / after the previous record's physical time.
use std::time::Duration;

use mock_instant::thread_local::MockClock;
use p2panda_core::SigningKey;
use p2panda_core::timestamp::{HybridTimestamp, LamportTimestamp, Timestamp};
use p2panda_net::addrs::{NodeInfo, NodeMetrics, NodeTransportInfo, TransportAddress, TransportInfo, UnsignedTransportInfo};
use serde_json::json;

fn main() {
    let _a = rp_core::args();
    let me = SigningKey::generate();
    let id = me.verifying_key();
    let mut n = 0u64;
    let mut reported = std::collections::BTreeSet::new();
    for t in [1_000u64, 1_700_000_000_000_000] {
        for l in [0u64, 1, 7] {
            for now in [t - 1, t, t + 1, 0, t + 1_000_000] {
                MockClock::set_system_time(Duration::from_micros(now));
                let prev = {
                    let mut u = UnsignedTransportInfo::new();
                    u.add_addr(TransportAddress::from_iroh(id, None, []));
                    u.timestamp = HybridTimestamp::from_parts(Timestamp::new(t), LamportTimestamp::new(l));
                    u.sign(&me).unwrap()
                };
                let mut node = NodeInfo { node_id: id, bootstrap: false, transports: None, metrics: NodeMetrics::default() };
                node.update_transports(TransportInfo::from(prev.clone())).unwrap();
                // publish twice more, each time based on the previous record
                let mut last = prev;
                for round in 0..2 {
                    let mut u = UnsignedTransportInfo::new();
                    u.add_addr(TransportAddress::from_iroh(id, None, []));
                    let next = u.increment_timestamp(Some(&last)).sign(&me).unwrap();
                    n += 1;
                    let newer = next.timestamp() > last.timestamp();
                    let accepted = node.update_transports(TransportInfo::from(next.clone())).unwrap_or(false);
                    if !newer || !accepted {
                        let class = if now < t { "clock-behind" } else if now == t { "clock-equal" } else { "clock-ahead" };
                        if reported.insert(class) {
                            rp_core::report(true, class, json!({"previous_timestamp": format!("{t}/{l}"), "clock_micros": now, "round": round}),
                                json!({"new_timestamp": next.timestamp().to_string(), "strictly_newer": newer, "accepted_by_update_transports": accepted}),
                                &["timestamp::UnsignedTransportInfo::increment_timestamp.ensures#newer_than_previous_record", "timestamp::HybridTimestamp::increment.ensures#strictly_greater"]);
                        }
                    }
                    last = next;
                }
            }
        }
    }
    println!("{}", json!({"summary": true, "evaluations": n, "distinct_nontrivial": n, "exhaustive": false,
        "rule": "previous record timestamps {1000, 1.7e15} x logical {0,1,7} x clock {t-1, t, t+1, 0, t+1e6}, two successive self-publications each; oracle: new timestamp > previous and update_transports accepts it",
        "bound": "30 configurations x 2 rounds", "samples": [{"previous": "1000/0", "clock": 1000}], "violating_classes": reported}));
}
