//! C27 replay (address-book actor path): the real p2panda_net AddressBook (actor + SQLite store) through its public
//! API. For one node: every arrival order of authentic records with timestamps 1, 2, 3 and a forged one, with a
//! `report(Failed)` (node becomes "stale") or `report(Successful)` inserted at every position: after every insert the
//! stored record must be the newest authentic one seen so far, `insert_transport_info` must return "newer" exactly when
//! it replaced the stored record, and the forged record must be rejected.
use p2panda_core::SigningKey;
use p2panda_net::AddressBook;
use p2panda_net::address_book::report::ConnectionOutcome;
use p2panda_net::addrs::{NodeTransportInfo, TransportAddress, TransportInfo, UnsignedTransportInfo};
use serde_json::json;

fn perms(n: usize) -> Vec<Vec<usize>> {
    if n == 0 { return vec![vec![]]; }
    let mut out = vec![];
    for p in perms(n - 1) { for i in 0..=p.len() { let mut q = p.clone(); q.insert(i, n - 1); out.push(q); } }
    out
}

#[tokio::main]
async fn main() {
    let _a = rp_core::args();
    let me = SigningKey::generate();
    let id = me.verifying_key();
    let other = SigningKey::generate();
    let rec = |key: &SigningKey, t: u64| -> TransportInfo {
        let mut u = UnsignedTransportInfo::new();
        u.add_addr(TransportAddress::from_iroh(id, None, []));
        u.timestamp = t.into();
        u.sign(key).unwrap().into()
    };
    let recs: Vec<(&str, TransportInfo, bool, u64)> = vec![("authentic t=1", rec(&me, 1), true, 1), ("authentic t=2", rec(&me, 2), true, 2), ("authentic t=3", rec(&me, 3), true, 3), ("forged t=9", rec(&other, 9), false, 9)];
    let obl = ["addrs::arm_insert_transport_info.ensures#stored_record_replaced_iff_strictly_newer", "addrs::arm_insert_transport_info.ensures#forged_or_mismatched_record_never_enters_the_book",
        "addrs::arm_insert_transport_info.ensures#reply_reports_whether_newer", "addrs::arm_insert_transport_info.ensures#only_this_node_changes", "addrs::arm_insert_transport_info.ensures#local_configuration_kept", "addrs::arm_insert_transport_info.safety"];
    let mut n = 0u64;
    let mut reported = std::collections::BTreeSet::new();
    for p in perms(recs.len()) {
        for report_at in 0..=recs.len() { for outcome in ["failed", "successful", "none"] {
            if outcome == "none" && report_at > 0 { continue; }
            let book = AddressBook::builder().spawn().await.unwrap();
            let mut best: Option<(u64, TransportInfo)> = None;
            let mut order = vec![];
            for (pos, i) in p.iter().enumerate() {
                if pos == report_at && outcome != "none" && best.is_some() {
                    let _ = book.report(id, if outcome == "failed" { ConnectionOutcome::Failed } else { ConnectionOutcome::Successful }).await;
                    order.push(format!("report({outcome})"));
                }
                let (label, r, authentic, t) = &recs[*i];
                order.push(label.to_string());
                n += 1;
                let res = book.insert_transport_info(id, r.clone()).await;
                let want_newer = *authentic && best.as_ref().map(|b| *t > b.0).unwrap_or(true);
                if want_newer { best = Some((*t, r.clone())); }
                let stored = book.node_info(id).await.unwrap().and_then(|ni| ni.transports);
                let class = if res.is_ok() != *authentic { Some(if *authentic { "authentic-record-rejected-by-address-book" } else { "forged-record-accepted-by-address-book" }) }
                    else if stored.as_ref().map(|s| s.timestamp()) != best.as_ref().map(|b| b.1.timestamp()) { Some("address-book-does-not-hold-the-newest-authentic-record") }
                    else if *authentic && res.as_ref().ok().copied() != Some(want_newer) { Some("insert-reports-wrong-newer-flag") } else { None };
                if let Some(c) = class {
                    if reported.insert(c) { rp_core::report(true, c, json!({"steps": order.clone()}), json!({"stored_timestamp": stored.map(|s| s.timestamp().to_string()), "newest_authentic": best.as_ref().map(|b| b.0), "result": format!("{res:?}")}), &obl); }
                    break;
                }
            }
        } }
    }
    println!("{}", json!({"summary": true, "evaluations": n, "distinct_nontrivial": n, "exhaustive": true,
        "rule": "all 24 arrival orders of 4 records (authentic t=1,2,3; forged) x a report(Failed|Successful) at every position, through the real AddressBook actor and SQLite store; checked after every insert",
        "bound": "4 records, 1 report per run", "violating_classes": reported}));
}
