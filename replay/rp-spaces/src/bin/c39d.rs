//! C39 replay (totality of dispatch): the real p2panda_spaces Manager::process, under catch_unwind, on well-typed
//! messages whose kind or contents a remote peer chose: a SpaceUpdate message; a SpaceMembership message whose
//! auth_message_id points at a stored message that is not an auth message (key bundle / application / itself-kind);
//! a SpaceMembership message pointing at an unknown message; an Application message for an unknown space.
//! Processing must return a result or an error, never panic.
use futures_util::FutureExt;
use p2panda_core::traits::Digest;
use p2panda_spaces::test_utils::{TestForge, TestPeer};
use p2panda_spaces::{Forge, SpaceId, SpacesArgs};
use serde_json::json;
use std::panic::AssertUnwindSafe;

#[tokio::main(flavor = "current_thread")]
async fn main() {
    let _a = rp_core::args();
    std::panic::set_hook(Box::new(|_| {}));
    let mut n = 0u64;
    let mut reported = std::collections::BTreeSet::new();
    let obl = ["spaces_dispatch::Manager::process.safety", "spaces_dispatch::Manager::handle_space_membership_message.safety",
        "spaces_dispatch::SpacesMessage::auth.safety", "spaces_dispatch::SpacesMessage::space_membership.safety", "spaces_dispatch::SpacesMessage::application.safety"];
    for case in ["space-update", "membership-pointing-at-key-bundle-message", "membership-pointing-at-unknown-message", "membership-pointing-at-space-update-message", "application-for-unknown-space"] {
        n += 1;
        let alice = TestPeer::new(0).await;
        let bob = TestPeer::new(1).await;
        let forge = TestForge::new(bob.store.clone(), bob.credentials.signing_key());
        let kb = bob.manager.key_bundle_message().await.unwrap();
        alice.persist_operation(&kb).await.unwrap();
        let _ = alice.manager.process(&kb).await;
        let space_id = SpaceId::digest(b"c39d");
        let update = SpacesArgs::SpaceUpdate { space_id, group_id: bob.manager.id(), space_dependencies: vec![] };
        let msg = match case {
            "space-update" => forge.forge(update).await.unwrap(),
            "membership-pointing-at-key-bundle-message" => forge.forge(SpacesArgs::SpaceMembership { space_id, group_id: bob.manager.id(), space_dependencies: vec![], auth_message_id: kb.hash(), direct_messages: vec![] }).await.unwrap(),
            "membership-pointing-at-unknown-message" => forge.forge(SpacesArgs::SpaceMembership { space_id, group_id: bob.manager.id(), space_dependencies: vec![], auth_message_id: SpaceId::digest(b"nothing"), direct_messages: vec![] }).await.unwrap(),
            "membership-pointing-at-space-update-message" => {
                let u = forge.forge(update).await.unwrap();
                alice.persist_operation(&u).await.unwrap();
                forge.forge(SpacesArgs::SpaceMembership { space_id, group_id: bob.manager.id(), space_dependencies: vec![], auth_message_id: u.hash(), direct_messages: vec![] }).await.unwrap()
            }
            _ => forge.forge(SpacesArgs::Application { space_id, space_dependencies: vec![], group_secret_id: [7; 32], nonce: [1; 24], ciphertext: vec![1, 2, 3] }).await.unwrap(),
        };
        alice.persist_operation(&msg).await.unwrap();
        let r = AssertUnwindSafe(alice.manager.process(&msg)).catch_unwind().await;
        if let Err(p) = r {
            let m = p.downcast_ref::<String>().cloned().or(p.downcast_ref::<&str>().map(|s| s.to_string())).unwrap_or_default();
            let class = format!("process-panics-on-{case}");
            if reported.insert(class.clone()) { rp_core::report(true, &class, json!({"message": case}), json!({"panic": m}), &obl); }
        }
    }
    println!("{}", json!({"summary": true, "evaluations": n, "distinct_nontrivial": n, "exhaustive": false,
        "rule": "Manager::process under catch_unwind on 5 remotely chosen well-typed messages (SpaceUpdate; membership pointers at key-bundle / unknown / space-update messages; application for an unknown space)",
        "bound": "5 messages", "violating_classes": reported}));
}
