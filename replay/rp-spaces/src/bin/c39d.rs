//! C39 replay (totality of dispatch): the real p2panda_spaces Manager::process, under catch_unwind, on well-typed
//! messages whose kind or contents a remote peer chose: a SpaceUpdate message; a SpaceMembership message whose
//! auth_message_id points at a stored message that is not an auth message (key bundle / application / itself-kind);
//! a SpaceMembership message pointing at an unknown message; an Application message for an unknown space.
//! Processing must return a result or an error, never panic.
use futures_util::FutureExt;
use p2panda_core::traits::Digest;
use p2panda_spaces::test_utils::{TestForge, TestPeer};
use p2panda_spaces::{Forge, SpaceId, SpacesArgs};
use serde_json::json;
use std::panic::AssertUnwindSafe;

#[tokio::main(flavor = "current_thread")]
async fn main() {
    let _a = rp_core::args();
    std::panic::set_hook(Box::new(|_| {}));
    let mut n = 0u64;
    let mut reported = std::collections::BTreeSet::new();
    let obl = ["spaces_dispatch::Manager::process.safety", "spaces_dispatch::Manager::handle_space_membership_message.safety",
        "spaces_dispatch::SpacesMessage::auth.safety", "spaces_dispatch::SpacesMessage::space_membership.safety", "spaces_dispatch::SpacesMessage::application.safety"];
    for case in ["space-update", "membership-pointing-at-key-bundle-message", "membership-pointing-at-unknown-message", "membership-pointing-at-space-update-message", "application-for-unknown-space"] {
        n += 1;
        let alice = TestPeer::new(0).await;
        let bob = TestPeer::new(1).await;
        let forge = TestForge::new(bob.store.clone(), bob.credentials.signing_key());
        let kb = bob.manager.key_bundle_message().await.unwrap();
        alice.persist_operation(&kb).await.unwrap();
        let _ = alice.manager.process(&kb).await;
        let space_id = SpaceId::digest(b"c39d");
        let update = SpacesArgs::SpaceUpdate { space_id, group_id: bob.manager.id(), space_dependencies: vec![] };
        let msg = match case {
            "space-update" => forge.forge(update).await.unwrap(),
            "membership-pointing-at-key-bundle-message" => forge.forge(SpacesArgs::SpaceMembership { space_id, group_id: bob.manager.id(), space_dependencies: vec![], auth_message_id: kb.hash(), direct_messages: vec![] }).await.unwrap(),
            "membership-pointing-at-unknown-message" => forge.forge(SpacesArgs::SpaceMembership { space_id, group_id: bob.manager.id(), space_dependencies: vec![], auth_message_id: SpaceId::digest(b"nothing"), direct_messages: vec![] }).await.unwrap(),
            "membership-pointing-at-space-update-message" => {
                let u = forge.forge(update).await.unwrap();
                alice.persist_operation(&u).await.unwrap();
                forge.forge(SpacesArgs::SpaceMembership { space_id, group_id: bob.manager.id(), space_dependencies: vec![], auth_message_id: u.hash(), direct_messages: vec![] }).await.unwrap()
            }
            _ => forge.forge(SpacesArgs::Application { space_id, space_dependencies: vec![], group_secret_id: [7; 32], nonce: [1; 24], ciphertext: vec![1, 2, 3] }).await.unwrap(),
        };
        alice.persist_operation(&msg).await.unwrap();
        let r = AssertUnwindSafe(alice.manager.process(&msg)).catch_unwind().await;
        if let Err(p) = r {
            let m = p.downcast_ref::<String>().cloned().or(p.downcast_ref::<&str>().map(|s| s.to_string())).unwrap_or_default();
            let class = format!("process-panics-on-{case}");
            if reported.insert(class.clone()) { rp_core::report(true, &class, json!({"message": case}), json!({"panic": m}), &obl); }
        }
    }
    // ---- duplicate delivery while not yet welcomed: bob buffers an application message of a space he is not a member of
    // yet k times (k = 1, 2, 3), then gets welcomed. The welcome must not panic, and the buffered message is delivered to the
    // application at most once however often it was processed.
    for k in 1..=3usize {
        n += 1;
        let alice = TestPeer::new(0).await;
        let bob = TestPeer::new(1).await;
        alice.manager.register_member(&bob.manager.me().await.unwrap()).await.unwrap();
        bob.manager.register_member(&alice.manager.me().await.unwrap()).await.unwrap();
        let space_id = SpaceId::digest(b"dup");
        let (space, messages) = alice.manager.create_space_persisted(space_id, &[]).await.unwrap();
        for m in &messages { bob.persist_operation(m).await.unwrap(); bob.manager.process_persisted(m).await.unwrap(); }
        let application = space.publish_persisted(b"hello").await.unwrap();
        let (auth_add, space_add) = space.add_persisted(bob.manager.id(), p2panda_auth::Access::read()).await.unwrap();
        bob.persist_operation(&application).await.unwrap();
        let mut early = 0usize;
        for _ in 0..k { if let Ok(ev) = bob.manager.process_persisted(&application).await { early += ev.len(); } }
        bob.persist_operation(&auth_add).await.unwrap();
        let _ = bob.manager.process_persisted(&auth_add).await;
        bob.persist_operation(&space_add).await.unwrap();
        let r = AssertUnwindSafe(bob.manager.process_persisted(&space_add)).catch_unwind().await;
        let inp = json!({"sequence": ["space created (bob not a member)", format!("application message processed {k} time(s) by bob"), "auth add of bob", "space membership message welcoming bob"]});
        match r {
            Err(p) => {
                let m = p.downcast_ref::<String>().cloned().or(p.downcast_ref::<&str>().map(|s| s.to_string())).unwrap_or_default();
                if reported.insert("welcome-panics-after-duplicate-buffered-message".to_string()) {
                    rp_core::report(true, "welcome-panics-after-duplicate-buffered-message", inp, json!({"panic": m}), &["enc_orderer::Ordering@EncryptionOrderer::next_ready_message.ensures#wf_kept_for_any_queue_even_with_repeated_ids", "enc_orderer::Ordering@EncryptionOrderer::next_ready_message.safety", "enc_orderer::Ordering@EncryptionOrderer::next_ready_message.ensures#stored_messages_kept", "enc_orderer::Ordering@EncryptionOrderer::queue.ensures#wf"]);
                }
            }
            Ok(res) => {
                let apps = res.as_ref().map(|ev| ev.iter().filter(|e| matches!(e, p2panda_spaces::Event::Application { .. })).count()).unwrap_or(0);
                if early + apps > 1 && reported.insert("buffered-application-message-delivered-more-than-once".to_string()) {
                    rp_core::report(true, "buffered-application-message-delivered-more-than-once", inp, json!({"application_events_at_welcome": apps, "application_events_before": early, "result_ok": res.is_ok()}), &["space_handlers::Space::handle_application_message.ensures#message_processed_before_changes_nothing_and_emits_nothing", "space_handlers::Space::handle_application_message.ensures#processed_message_is_recorded_so_that_a_second_delivery_is_ignored", "space_handlers::Space::handle_application_message.safety"]);
                }
            }
        }
    }
    // ---- a remote manager of a group publishes a Promote / Demote auth message (well-typed, authorised): processing it
    // must return a result or an error, not panic
    for (what, promote) in [("promote", true), ("demote", false)] {
        n += 1;
        let alice = TestPeer::new(0).await;
        let bob = TestPeer::new(1).await;
        let carol = TestPeer::new(2).await;
        for p in [&bob, &carol] { alice.manager.register_member(&p.manager.me().await.unwrap()).await.unwrap(); }
        // bob creates a group with himself (manager), alice (manager) and carol (read); alice learns about it
        let (g, create) = bob.manager.create_group_persisted(&[(bob.manager.id(), p2panda_auth::Access::manage()), (alice.manager.id(), p2panda_auth::Access::manage()), (carol.manager.id(), p2panda_auth::Access::read())]).await.unwrap();
        alice.persist_operation(&create).await.unwrap();
        let _ = alice.manager.process_persisted(&create).await;
        let group_id = g.id();
        let forge = TestForge::new(bob.store.clone(), bob.credentials.signing_key());
        let member = p2panda_auth::group::GroupMember::Individual(carol.manager.id());
        let action = if promote { p2panda_auth::group::GroupAction::Promote { member, access: p2panda_auth::Access::write() } } else { p2panda_auth::group::GroupAction::Demote { member, access: p2panda_auth::Access::pull() } };
        let msg = forge.forge(SpacesArgs::Auth { group_id, group_action: action, auth_dependencies: vec![create.hash()] }).await.unwrap();
        alice.persist_operation(&msg).await.unwrap();
        let r = AssertUnwindSafe(alice.manager.process(&msg)).catch_unwind().await;
        if std::env::var("RP_DEBUG").is_ok() { eprintln!("{what}: {:?}", r.as_ref().map(|x| x.as_ref().map(|e| e.2.len()).map_err(|e| e.to_string())).map_err(|_| "panic")); }
        if let Err(p) = r {
            let m = p.downcast_ref::<String>().cloned().or(p.downcast_ref::<&str>().map(|s| s.to_string())).unwrap_or_default();
            let class = format!("process-panics-on-authorised-{what}-auth-message");
            if reported.insert(class.clone()) { rp_core::report(true, &class, json!({"message": format!("Auth message with a {what} action for a reader, authored by a manager of the group")}), json!({"panic": m}), &["spaces_dispatch::Manager::process.safety"]); }
        }
    }
    // ---- a member of the space processes the same application message twice (duplicate delivery)
    {
        n += 1;
        let alice = TestPeer::new(0).await;
        let bob = TestPeer::new(1).await;
        alice.manager.register_member(&bob.manager.me().await.unwrap()).await.unwrap();
        bob.manager.register_member(&alice.manager.me().await.unwrap()).await.unwrap();
        let space_id = SpaceId::digest(b"dup2");
        let (space, messages) = alice.manager.create_space_persisted(space_id, &[(bob.manager.id(), p2panda_auth::Access::read())]).await.unwrap();
        for m in &messages { bob.persist_operation(m).await.unwrap(); bob.manager.process_persisted(m).await.unwrap(); }
        let application = space.publish_persisted(b"hello").await.unwrap();
        bob.persist_operation(&application).await.unwrap();
        let mut per_call = vec![];
        for _ in 0..3 {
            let r = AssertUnwindSafe(bob.manager.process_persisted(&application)).catch_unwind().await;
            per_call.push(match r { Err(_) => "panic".to_string(), Ok(Err(e)) => format!("error: {e}").chars().take(80).collect(), Ok(Ok(ev)) => format!("{} event(s)", ev.len()) });
        }
        let again = per_call[1..].iter().any(|c| c != "0 event(s)" && !c.starts_with("error"));
        if again && reported.insert("application-message-processed-again-emits-events-again".to_string()) {
            rp_core::report(true, "application-message-processed-again-emits-events-again", json!({"sequence": ["space created with bob as reader", "bob processes one application message 3 times"]}), json!({"per_call": per_call}), &["space_handlers::Space::handle_application_message.ensures#message_processed_before_changes_nothing_and_emits_nothing", "space_handlers::Space::handle_application_message.ensures#processed_message_is_recorded_so_that_a_second_delivery_is_ignored", "space_handlers::Space::handle_application_message.safety"]);
        }
    }
    println!("{}", json!({"summary": true, "evaluations": n, "distinct_nontrivial": n, "exhaustive": false,
        "rule": "Manager::process under catch_unwind on 5 remotely chosen well-typed messages + an application message buffered 1..3 times before the welcome; (SpaceUpdate; membership pointers at key-bundle / unknown / space-update messages; application for an unknown space)",
        "bound": "8 scenarios", "violating_classes": reported}));
}
