//! C06 replay / bounded stand-in: the real p2panda_core::logs::compare (and Cursor::compare) against the
//! executable form of the specification `expected` used in the proof, exhaustively over small maps.
use std::collections::BTreeMap;

use p2panda_core::cursor::Cursor;
use p2panda_core::logs::{compare, LogHeights, LogRanges};
use serde_json::json;

#[derive(Clone, Copy, Debug, PartialEq, Eq, PartialOrd, Ord, Hash, serde::Serialize, serde::Deserialize)]
struct Au(u64);
impl p2panda_core::identity::Author for Au {}

type H = LogHeights<Au, u64>;

fn expected(local: &H, remote: &H) -> LogRanges<Au, u64> {
    // rget(r, a, l) == if need(a, l) { Some((remote[a][l]?, Some(local[a][l]))) } else { None }
    let mut r: LogRanges<Au, u64> = BTreeMap::new();
    for (a, logs) in local {
        for (l, h) in logs {
            let rh = remote.get(a).and_then(|m| m.get(l)).copied();
            let need = match rh { None => true, Some(x) => x < *h };
            if need { r.entry(*a).or_default().insert(*l, (rh, Some(*h))); }
        }
    }
    r
}

// compare ranges pair-wise (an author entry with an empty inner map carries no (author, log) pair)
fn flat(r: &LogRanges<Au, u64>) -> BTreeMap<(Au, u64), (Option<u32>, Option<u32>)> {
    r.iter().flat_map(|(a, m)| m.iter().map(move |(l, v)| ((*a, *l), *v))).collect()
}

fn maps(authors: &[u64], logs: &[u64], heights: &[u32]) -> Vec<H> {
    // per author: absent, or any assignment log -> (absent | height)
    let per_author: Vec<Option<BTreeMap<u64, u32>>> = {
        let mut v = vec![None];
        let k = heights.len() + 1;
        for code in 0..k.pow(logs.len() as u32) {
            let mut m = BTreeMap::new();
            let mut c = code;
            for l in logs { let d = c % k; c /= k; if d > 0 { m.insert(*l, heights[d - 1]); } }
            v.push(Some(m));
        }
        v
    };
    let mut out = vec![BTreeMap::new()];
    for a in authors {
        let mut next = vec![];
        for base in &out {
            for pa in &per_author {
                let mut b: H = base.clone();
                if let Some(m) = pa { b.insert(Au(*a), m.clone()); }
                next.push(b);
            }
        }
        out = next;
    }
    out
}

fn main() {
    let a = rp_core::args();
    let domains: Vec<(Vec<u64>, Vec<u64>, Vec<u32>)> = vec![
        (vec![0, 1], vec![0, 1], vec![0, 1, 5]),
        (vec![7], vec![1, 2, 3], vec![0, 1, 2, u32::MAX]),
    ];
    let mut n = 0u64;
    let mut nontrivial = 0u64;
    let mut reported = std::collections::BTreeSet::new();
    let mut samples = vec![];
    for (au, lo, he) in &domains {
        let ms = maps(au, lo, he);
        for local in &ms {
            for remote in &ms {
                n += 1;
                let got = compare(local, remote);
                let want = expected(local, remote);
                if !want.is_empty() { nontrivial += 1; }
                if samples.len() < 3 && !want.is_empty() && n % 977 == 0 {
                    samples.push(json!({"local": format!("{local:?}"), "remote": format!("{remote:?}"), "diff": format!("{got:?}")}));
                }
                let cur = Cursor::new("c", remote.clone());
                let got2 = cur.compare(local);
                let bad1 = flat(&got) != flat(&want);
                let bad2 = flat(&got2) != flat(&want);
                let bad3 = got.keys().any(|k| !local.contains_key(k));
                if bad1 || bad2 || bad3 {
                    let zero = local.values().chain(remote.values()).any(|m| m.values().any(|h| *h == 0));
                    let class = if bad2 && !bad1 { "cursor-compare-argument-order" } else if bad3 && !bad1 { "author-not-in-local" } else if zero { "height-zero" } else { "mixed-progress" };
                    if reported.insert(class) {
                        rp_core::report(true, class, json!({"local": format!("{local:?}"), "remote": format!("{remote:?}")}),
                            json!({"compare": format!("{got:?}"), "cursor_compare": format!("{got2:?}"), "specification": format!("{want:?}")}),
                            &["logs::compare.ensures#exact_diff", "logs::compare.loop1.invariant#diff_so_far", "logs::compare.loop2.invariant#diff_so_far", "logs::compare.safety", "logs::Cursor::compare.ensures#diff_of_other_against_self"]);
                    }
                }
            }
        }
    }
    println!("{}", json!({"summary": true, "evaluations": n, "distinct_nontrivial": nontrivial, "exhaustive": true,
        "rule": "all pairs (local, remote) of log-height maps over authors {0,1} x logs {0,1} x heights {0,1,5} and author {7} x logs {1,2,3} x heights {0,1,2,u32::MAX}; non-trivial = expected diff non-empty; oracle = executable form of spec fn `expected`",
        "bound": "<=2 authors, <=3 logs, heights from a 3- or 4-element set", "samples": samples, "violating_classes": reported}));
}
