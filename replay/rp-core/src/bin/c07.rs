//! C07 replay (cursor part): the real p2panda_core::Cursor::advance against "pointwise maximum of all
//! advances, independent of order": all sequences of up to 4 advances over 1 author x logs {0,1} x heights {0,1,2}
//! plus a second author, and every permutation of each sequence.
use std::collections::BTreeMap;

use p2panda_core::cursor::Cursor;
use serde_json::json;

#[derive(Clone, Copy, Debug, PartialEq, Eq, PartialOrd, Ord, Hash, serde::Serialize, serde::Deserialize)]
struct Au(u64);
impl p2panda_core::identity::Author for Au {}

type Adv = (u64, u64, u32);

fn run(seq: &[Adv]) -> BTreeMap<(u64, u64), u32> {
    let mut c = Cursor::<Au, u64>::new("c", BTreeMap::new());
    for (a, l, h) in seq { c.advance(Au(*a), *l, *h); }
    c.state().iter().flat_map(|(a, m)| m.iter().map(move |(l, h)| ((a.0, *l), *h))).collect()
}

fn model(seq: &[Adv]) -> BTreeMap<(u64, u64), u32> {
    let mut m = BTreeMap::new();
    for (a, l, h) in seq { let e = m.entry((*a, *l)).or_insert(*h); if *h > *e { *e = *h; } }
    m
}

fn main() {
    let _a = rp_core::args();
    let alphabet: Vec<Adv> = {
        let mut v = vec![];
        for a in [0u64, 1] { for l in [0u64, 1] { for h in [0u32, 1, 2] { v.push((a, l, h)); } } }
        v
    };
    let mut n = 0u64;
    let mut reported = std::collections::BTreeSet::new();
    let k = alphabet.len();
    for len in 1..=4usize {
        for code in 0..k.pow(len as u32) {
            let mut seq = vec![];
            let mut c = code;
            for _ in 0..len { seq.push(alphabet[c % k]); c /= k; }
            n += 1;
            let got = run(&seq);
            let want = model(&seq);
            if got != want {
                let class = if seq.iter().any(|x| x.2 == 0) { "advance-to-height-zero" } else { "advance-not-pointwise-max" };
                if reported.insert(class) {
                    rp_core::report(true, class, json!({"advances(author,log,height)": seq}), json!({"cursor": format!("{got:?}"), "pointwise_max": format!("{want:?}")}),
                        &["logs::Cursor::advance.ensures#pointwise_max_at_key", "logs::Cursor::advance.ensures#others_unchanged"]);
                }
            }
        }
    }
    println!("{}", json!({"summary": true, "evaluations": n, "violating_classes": reported}));
}
