//! C18 replay: HybridTimestamp::increment against the real p2panda-core with a mock wall clock.
//! Directed search over (self.physical, self.logical, now) around the boundaries named by the
//! failed obligation `increment.ensures#strictly_greater`.
use std::time::Duration;

use mock_instant::thread_local::MockClock;
use p2panda_core::timestamp::{HybridTimestamp, LamportTimestamp, Timestamp};
use serde_json::json;

fn try_one(t: u64, l: u64, now: u64) -> Option<(String, serde_json::Value)> {
    MockClock::set_system_time(Duration::from_micros(now));
    let a = HybridTimestamp::from_parts(Timestamp::new(t), LamportTimestamp::new(l));
    let b = a.increment();
    if b > a {
        None
    } else {
        let class = if now < t { "clock-behind" } else if now == t { "clock-equal" } else { "clock-ahead" };
        Some((class.to_string(), json!({"result": b.to_string(), "input": a.to_string(), "result_gt_input": b > a})))
    }
}

fn main() {
    let a = rp_core::args();
    let mut cands: Vec<(u64, u64, u64)> = vec![];
    if let Some(v) = &a.input {
        for r in v.as_array().cloned().unwrap_or_default() {
            let i = &r["input"];
            if let (Some(t), Some(l), Some(n)) = (i["t"].as_u64(), i["l"].as_u64(), i["now"].as_u64()) {
                cands.push((t, l, n));
            }
        }
    } else {
        let ts = [0u64, 1, 100, 200, 1 << 40, u64::MAX / 2];
        let ls = [0u64, 1, 5, u64::MAX - 1];
        for &t in &ts {
            for &l in &ls {
                for now in [0, 1, t.saturating_sub(1), t, t.saturating_add(1), 100, 1 << 41] {
                    cands.push((t, l, now));
                }
            }
        }
    }
    let mut seen = std::collections::BTreeSet::new();
    let mut n = 0;
    for (t, l, now) in cands {
        n += 1;
        if let Some((class, obs)) = try_one(t, l, now) {
            if seen.insert(class.clone()) || a.input.is_some() {
                rp_core::report(true, &class, json!({"t": t, "l": l, "now": now}), obs,
                    &["timestamp::HybridTimestamp::increment.ensures#strictly_greater"]);
            }
        }
    }
    println!("{}", json!({"summary": true, "evaluations": n, "violating_classes": seen}));
}
