//! Shared helpers for replay binaries: argument parsing and JSON-line output.
use serde_json::{json, Value};

pub struct Args {
    pub seed: u64,
    pub tier: String,
    pub bounded: bool,
    pub input: Option<Value>,
    pub obligations: Vec<String>,
}

pub fn args() -> Args {
    let mut a = Args { seed: 0, tier: "quick".into(), bounded: false, input: None, obligations: vec![] };
    let mut it = std::env::args().skip(1);
    while let Some(x) = it.next() {
        match x.as_str() {
            "--seed" => a.seed = it.next().and_then(|s| s.parse().ok()).unwrap_or(0),
            "--tier" => a.tier = it.next().unwrap_or_default(),
            "--bounded" => a.bounded = true,
            "--input" => a.input = it.next().and_then(|s| serde_json::from_str(&s).ok()),
            _ => a.obligations.push(x),
        }
    }
    a
}

pub fn report(violation: bool, class: &str, input: Value, observed: Value, obligations: &[&str]) {
    println!("{}", json!({"violation": violation, "class": class, "input": input, "observed": observed, "obligations": obligations}));
}
