//! C08 replay (never-panic clause): the real SqliteStore log queries with the empty set of logs and with logs
//! that do not exist, under catch_unwind.
use p2panda_core::{Hash, Operation, SigningKey, VerifyingKey};
use p2panda_store::SqliteStore;
use p2panda_store::logs::LogStore;
use serde_json::json;

fn main() {
    let _a = rp_core::args();
    let mut reported = std::collections::BTreeSet::new();
    let mut n = 0u64;
    let rt = tokio::runtime::Builder::new_current_thread().enable_all().build().unwrap();
    let sk = SigningKey::generate();
    let cases: Vec<(&str, Vec<u64>)> = vec![("empty set of logs", vec![]), ("one unknown log", vec![7]), ("two logs", vec![1, 2])];
    for (label, logs) in cases {
        n += 1;
        let r = std::panic::catch_unwind(std::panic::AssertUnwindSafe(|| {
            rt.block_on(async {
                let store = SqliteStore::temporary().await;
                let ch = rp_stream::chain(&sk, 3);
                for o in &ch { let _ = p2panda_stream::ingest::ingest_operation(&store, o, &1u64, &1u64, false).await; }
                LogStore::<Operation<()>, VerifyingKey, u64, u32, Hash>::get_log_heights(&store, &sk.verifying_key(), &logs).await.map(|x| format!("{x:?}")).map_err(|e| e.to_string())
            })
        }));
        match r {
            Err(p) => {
                let msg = p.downcast_ref::<String>().cloned().or(p.downcast_ref::<&str>().map(|s| s.to_string())).unwrap_or_default();
                if reported.insert("get_log_heights-panics-on-empty-log-set") {
                    rp_core::report(true, "get_log_heights-panics-on-empty-log-set", json!({"call": "get_log_heights(author, logs)", "logs": label}), json!({"panic": msg}),
                        &["logstore_glue::LogStore@SqliteStore::get_log_heights.safety"]);
                }
            }
            Ok(_) => {}
        }
    }
    println!("{}", json!({"summary": true, "evaluations": n, "distinct_nontrivial": n, "exhaustive": false, "rule": "get_log_heights with 0, 1 (unknown) and 2 logs on a store holding a 3-entry log; panic = violation",
        "bound": "3 calls", "samples": [{"logs": []}], "violating_classes": reported}));
}
