//! C04 BOUNDED stand-in for the assumed store contract "prune_entries(author, log, until) deletes exactly the entries
//! of (author, log) with seq_num < until": the real SqliteStore (SQLite executes the SQL text — out of a Rust
//! verifier's reach). Enumerates log length x until over a small grid, with a second log of the same author and a
//! second author present, and compares every log before/after. Bounded; never counted as proved.
use p2panda_core::{Hash, Operation, SigningKey, VerifyingKey};
use p2panda_store::SqliteStore;
use p2panda_store::logs::LogStore;
use serde_json::json;

fn chain(sk: &SigningKey, n: u32, tag: &str) -> Vec<Operation<()>> {
    let mut v: Vec<Operation<()>> = vec![];
    for i in 0..n {
        let bl = v.last().map(|o| o.hash);
        v.push(rp_stream::op(sk, i, bl, format!("{tag} {i}").as_bytes()));
    }
    v
}

async fn seqs(store: &SqliteStore, vk: &VerifyingKey, log: u64) -> Vec<u32> {
    LogStore::<Operation<()>, VerifyingKey, u64, u32, Hash>::get_log_entries(store, vk, &log, None, None)
        .await.unwrap().map(|v| v.into_iter().map(|(o, _)| o.header.seq_num).collect()).unwrap_or_default()
}

fn main() {
    let a = rp_core::args();
    let rt = tokio::runtime::Builder::new_current_thread().enable_all().build().unwrap();
    let alice = SigningKey::from_bytes(&[1u8; 32]);
    let bob = SigningKey::from_bytes(&[2u8; 32]);
    let lens: Vec<u32> = if a.tier == "thorough" { vec![0, 1, 2, 3, 5, 12, 33] } else { vec![0, 1, 3, 12] };
    let mut grid: Vec<(u32, u32)> = vec![];
    if let Some(v) = &a.input {
        for r in v.as_array().cloned().unwrap_or_default() {
            let i = &r["input"];
            if let (Some(n), Some(u)) = (i["log_len"].as_u64(), i["until"].as_u64()) { grid.push((n as u32, u as u32)); }
        }
    } else {
        for &n in &lens { for until in (0..=n + 1).chain([u32::MAX]) { grid.push((n, until)); } }
    }
    let mut reported = std::collections::BTreeSet::new();
    let mut n_eval = 0u64;
    let mut nontrivial = 0u64;
    for (n, until) in grid {
        n_eval += 1;
        let obs = rt.block_on(async {
            let store = SqliteStore::temporary().await;
            for o in chain(&alice, n, "a1") { p2panda_stream::ingest::ingest_operation(&store, &o, &1u64, &1u64, false).await.unwrap(); }
            for o in chain(&alice, 3, "a2") { p2panda_stream::ingest::ingest_operation(&store, &o, &2u64, &1u64, false).await.unwrap(); }
            for o in chain(&bob, 3, "b1") { p2panda_stream::ingest::ingest_operation(&store, &o, &1u64, &1u64, false).await.unwrap(); }
            let before = seqs(&store, &alice.verifying_key(), 1).await;
            let deleted = LogStore::<Operation<()>, VerifyingKey, u64, u32, Hash>::prune_entries(&store, &alice.verifying_key(), &1u64, &until).await.unwrap();
            let after = seqs(&store, &alice.verifying_key(), 1).await;
            let other_log = seqs(&store, &alice.verifying_key(), 2).await;
            let other_author = seqs(&store, &bob.verifying_key(), 1).await;
            (before, deleted, after, other_log, other_author)
        });
        let (before, deleted, after, other_log, other_author) = obs;
        let expect: Vec<u32> = before.iter().copied().filter(|s| *s >= until).collect();
        if expect.len() != before.len() { nontrivial += 1; }
        let class = if after != expect {
            if after.len() < expect.len() { Some("prune-deletes-entry-at-or-above-until") } else { Some("prune-keeps-entry-below-until") }
        } else if other_log != vec![0, 1, 2] { Some("prune-touches-other-log-of-author") }
        else if other_author != vec![0, 1, 2] { Some("prune-touches-other-author") }
        else if deleted as usize != before.len() - expect.len() { Some("prune-reports-wrong-count") }
        else { None };
        if let Some(c) = class {
            if reported.insert(c) || a.input.is_some() {
                rp_core::report(true, c, json!({"log_len": n, "until": until}),
                    json!({"before": before, "after": after, "expected_after": expect, "rows_deleted": deleted, "other_log": other_log, "other_author": other_author}),
                    &["assumed-contract:LogStore::prune_entries"]);
            }
        }
    }
    println!("{}", json!({"summary": true, "evaluations": n_eval, "distinct_nontrivial": nontrivial, "exhaustive": false,
        "function": "p2panda-store/src/logs/sqlite/mod.rs LogStore@SqliteStore::prune_entries",
        "rule": "every (log length n, until in 0..=n+1 and u32::MAX) on a fresh SQLite store that also holds a second log of the author and a second author; non-trivial = at least one entry must be deleted",
        "bound": format!("log lengths {:?}", lens), "samples": [{"log_len": 3, "until": 2}], "violating_classes": reported}));
}
