//! C05 replay: real ingest_operation on SqliteStore::temporary(): once a prune-flagged operation at seq N
//! was ingested, no operation of that log below N is stored again. All delivery orders of a 6-entry chain
//! where entries 2 and 4 carry the prune flag (the orders that start with a prune point).
use p2panda_core::SigningKey;
use p2panda_store::SqliteStore;
use p2panda_stream::ingest::ingest_operation;
use serde_json::json;

fn perms(n: usize) -> Vec<Vec<usize>> {
    if n == 0 { return vec![vec![]]; }
    let mut out = vec![];
    for p in perms(n - 1) { for i in 0..=p.len() { let mut q = p.clone(); q.insert(i, n - 1); out.push(q); } }
    out
}

#[tokio::main(flavor = "current_thread")]
async fn main() {
    let _a = rp_core::args();
    let mut n = 0u64;
    let mut reported = std::collections::BTreeSet::new();
    let sk = SigningKey::generate();
    let ch = rp_stream::chain(&sk, 6);
    // two flag assignments: prune points in the middle of the log, and a log that also STARTS with a prune point
    for prune_points in [vec![2u32, 4], vec![0u32, 3]] { for p in perms(6) {
        let store = SqliteStore::temporary().await;
        let mut floor = 0u32; // greatest ingested prune point
        let mut order = vec![];
        for i in p {
            let o = &ch[i];
            let seq = o.header.seq_num;
            let flag = prune_points.contains(&seq);
            let r = ingest_operation(&store, o, &1u64, &1u64, flag).await;
            n += 1;
            order.push(seq);
            if let Ok(true) = r {
                if seq < floor {
                    let class = if flag { "prune-flagged-operation-below-ingested-prune-point" } else { "operation-below-ingested-prune-point" };
                    if reported.insert(class) {
                        let stored = rp_stream::stored_seqs(&store, &sk).await;
                        rp_core::report(true, class, json!({"chain": format!("seq 0..5, prune flag on {prune_points:?}"), "delivery_order": order.clone()}),
                            json!({"accepted_seq": seq, "ingested_prune_point": floor, "stored_seqs_after": stored}),
                            &["oplog::validate_prunable_backlink.ensures#never_below_head", "oplog::validate_prunable_backlink.ensures#ok_iff_extends_log", "oplog::ingest_operation.ensures#never_below_head", "oplog::ingest_operation.ensures#accepted_extends_log"]);
                    }
                }
                if flag && seq > floor { floor = seq; }
            }
        }
        // crafted stragglers: an unflagged operation one below an ingested prune point whose backlink names the prune point itself
        for np in prune_points.iter().filter(|x| **x >= 1 && **x <= floor) {
            let crafted = rp_stream::op(&sk, np - 1, Some(ch[*np as usize].hash), b"crafted straggler");
            let r = ingest_operation(&store, &crafted, &1u64, &1u64, false).await;
            n += 1;
            if let Ok(true) = r { if reported.insert("operation-below-ingested-prune-point") {
                let stored = rp_stream::stored_seqs(&store, &sk).await;
                rp_core::report(true, "operation-below-ingested-prune-point", json!({"chain": format!("seq 0..5, prune flag on {prune_points:?}"), "delivery_order": order.clone(), "then": format!("unflagged operation at seq {} with the prune point {} as backlink", np - 1, np)}),
                    json!({"accepted_seq": np - 1, "ingested_prune_point": floor, "stored_seqs_after": stored}), &["oplog::validate_backlink.ensures#ok_iff_links", "oplog::ingest_operation.ensures#never_below_head"]);
            } }
        }
    } }
    println!("{}", json!({"summary": true, "evaluations": n, "violating_classes": reported}));
}
