//! C11 BOUNDED stand-in: the real CausalOrderer (hook p2panda_stream::orderer::verif) over the real SqliteStore —
//! the OrdererStore contract the proof of CausalOrderer::process ASSUMES is implemented by SQL text executed by SQLite,
//! out of a Rust verifier's reach. Exhaustive over all DAGs on up to 4 items (item i may depend on any subset of the
//! items before it), with variants: a dependency entry repeated in the list, and one dependency that is never
//! delivered; every delivery permutation; the ready queue is drained after every delivery.
//! Checked: (safety) an item is released only after every one of its dependencies was released, and at most once;
//! (completeness) at the end exactly the items whose dependencies (transitively) were all delivered have been released.
use p2panda_core::Hash;
use p2panda_store::{SqliteStore, Transaction};
use p2panda_stream::orderer::verif::CausalOrderer;
use serde_json::json;

fn perms(n: usize) -> Vec<Vec<usize>> {
    if n == 0 { return vec![vec![]]; }
    let mut out = vec![];
    for p in perms(n - 1) { for i in 0..=p.len() { let mut q = p.clone(); q.insert(i, n - 1); out.push(q); } }
    out
}

fn main() {
    let a = rp_core::args();
    let rt = tokio::runtime::Builder::new_current_thread().enable_all().build().unwrap();
    let ids: Vec<Hash> = (0..6u8).map(|i| Hash::digest([i; 4])).collect();
    let missing = ids[5];
    let mut reported = std::collections::BTreeSet::new();
    let (mut n_eval, mut nontrivial) = (0u64, 0u64);
    let max_n = if a.tier == "thorough" { 4 } else { 3 };
    for n in 1..=max_n {
        // dependency sets: for item i a bitmask over items < i
        let mut graphs: Vec<Vec<u32>> = vec![vec![]];
        for i in 0..n { let mut next = vec![]; for g in &graphs { for mask in 0..(1u32 << i) { let mut h = g.clone(); h.push(mask); next.push(h); } } graphs = next; }
        for g in &graphs {
            for variant in ["plain", "repeated-dependency-entry", "missing-dependency", "every-item-delivered-twice", "whole-sequence-delivered-twice"] {
                // dependency lists
                let deps: Vec<Vec<Hash>> = (0..n).map(|i| {
                    let mut d: Vec<Hash> = (0..i).filter(|j| g[i] >> j & 1 == 1).map(|j| ids[j]).collect();
                    if variant == "repeated-dependency-entry" && !d.is_empty() { d.push(d[0]); }
                    if variant == "missing-dependency" && i == n - 1 { d.push(missing); }
                    d
                }).collect();
                if variant == "repeated-dependency-entry" && deps.iter().all(|d| d.is_empty()) { continue; }
                for p in perms(n) { for drain_at_end_only in [false, true] {
                    n_eval += 1;
                    if g.iter().any(|m| *m != 0) { nontrivial += 1; }
                    let released: Vec<Hash> = rt.block_on(async {
                        let store = SqliteStore::temporary().await;
                        let orderer = CausalOrderer::new(store.clone());
                        let mut out = vec![];
                        let delivery: Vec<usize> = if variant == "every-item-delivered-twice" { p.iter().flat_map(|i| [*i, *i]).collect() } else if variant == "whole-sequence-delivered-twice" { p.iter().chain(p.iter()).cloned().collect() } else { p.clone() };
                        for i in &delivery {
                            let permit = store.begin().await.unwrap();
                            orderer.process(ids[*i], &deps[*i]).await.unwrap();
                            store.commit(permit).await.unwrap();
                            if drain_at_end_only { continue; }
                            loop {
                                let permit = store.begin().await.unwrap();
                                let x = orderer.next().await.unwrap();
                                store.commit(permit).await.unwrap();
                                match x { Some(id) => out.push(id), None => break }
                            }
                        }
                        // everything that is (still) queued is taken out at the end
                        loop {
                            let permit = store.begin().await.unwrap();
                            let x = orderer.next().await.unwrap();
                            store.commit(permit).await.unwrap();
                            match x { Some(id) => out.push(id), None => break }
                        }
                        out
                    });
                    // expected final set: items whose transitive dependencies are all delivered (missing one blocks)
                    let mut ok = vec![false; n];
                    loop {
                        let mut ch = false;
                        for i in 0..n { if !ok[i] && deps[i].iter().all(|d| ids.iter().position(|x| x == d).map(|j| j < n && ok[j]).unwrap_or(false)) { ok[i] = true; ch = true; } }
                        if !ch { break; }
                    }
                    let inp = json!({"items": n, "dependencies(item -> indexes)": deps.iter().map(|d| d.iter().map(|h| ids.iter().position(|x| x == h)).collect::<Vec<_>>()).collect::<Vec<_>>(), "delivery_order": p, "queue_drained": if drain_at_end_only { "only after the last delivery" } else { "after every delivery" }, "variant": variant});
                    let rel_idx: Vec<usize> = released.iter().map(|h| ids.iter().position(|x| x == h).unwrap()).collect();
                    let mut class = None;
                    // safety
                    for (pos, i) in rel_idx.iter().enumerate() {
                        // an item that is delivered again after it was released is queued again (documented behaviour of the
                        // store's mark_ready: "not swallow items when they got re-processed"); without re-delivery never twice
                        if rel_idx[..pos].contains(i) && !variant.contains("delivered-twice") { class = Some("item-released-twice"); }
                        for d in &deps[*i] { let j = ids.iter().position(|x| x == d).unwrap(); if !rel_idx[..pos].contains(&j) { class = Some("item-released-before-its-dependency"); } }
                    }
                    if class.is_none() {
                        for i in 0..n { if ok[i] && !rel_idx.contains(&i) { class = Some(if variant == "repeated-dependency-entry" { "item-with-repeated-dependency-entry-never-released" } else { "item-with-all-dependencies-processed-never-released" }); } }
                    }
                    if let Some(c) = class { if reported.insert(c) { rp_core::report(true, c, inp, json!({"released(order)": rel_idx, "expected_released(set)": (0..n).filter(|i| ok[*i]).collect::<Vec<_>>()}), &[]); } }
                }
                }
            }
        }
    }
    println!("{}", json!({"summary": true, "function": "p2panda-store/src/orderer/sqlite.rs OrdererStore@SqliteStore (ready / mark_pending / get_next_pending / remove_pending / mark_ready / take_next_ready)",
        "evaluations": n_eval, "distinct_nontrivial": nontrivial, "exhaustive": true,
        "rule": "all DAGs on <= N items x {plain, one repeated dependency entry, one never-delivered dependency, every item delivered twice in a row} x all delivery orders through the real CausalOrderer on SqliteStore::temporary(); non-trivial = at least one dependency edge",
        "bound": format!("N = {max_n} items"), "violating_classes": reported}));
}
