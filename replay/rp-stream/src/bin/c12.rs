//! C12 replay: the real p2panda_stream Orderer on a file-backed SQLite store. One ready item A is in the queue.
//! `next()` is polled by hand k times (k = 0, 1, 2, ...) and then dropped — as the buffered stream layer's
//! `select!` does when input arrives first — and afterwards `next()` is awaited to completion. The item must still
//! be returned, for every k. (Polls are separated by short sleeps so that the SQLite driver makes progress.)
use std::future::Future;
use std::pin::pin;
use std::task::{Context, Poll};
use std::time::Duration;

use p2panda_core::{Body, Hash, Header, Operation, SigningKey, Topic};
use p2panda_store::operations::OperationStore;
use p2panda_store::{SqliteStoreBuilder, tx_unwrap};
use p2panda_stream::Processor;
use p2panda_stream::orderer::Orderer;
use serde_json::json;

fn op(deps: Vec<Hash>, body: &[u8]) -> Operation<Vec<Hash>> {
    let sk = SigningKey::generate();
    let body: Body = body.to_vec().into();
    let mut header = Header { verifying_key: sk.verifying_key(), payload_size: body.size(), payload_hash: Some(body.hash()), extensions: deps, ..Default::default() };
    header.sign(&sk);
    Operation { hash: header.hash(), header, body: Some(body) }
}

#[tokio::main(flavor = "multi_thread", worker_threads = 2)]
async fn main() {
    let a = rp_core::args();
    let mut n = 0u64;
    let mut reported = std::collections::BTreeSet::new();
    let dir = std::env::temp_dir().join(format!("rp-c12-{}", std::process::id()));
    let _ = std::fs::create_dir_all(&dir);
    let max_k = if a.tier == "thorough" { 40 } else { 24 };
    let mut ready_at = None;
    let mut lost_at = vec![];
    for k in 0..max_k {
        let path = dir.join(format!("db-{k}.sqlite"));
        let url = format!("sqlite://{}", path.display());
        let store = SqliteStoreBuilder::new().database_url(&url).create_database(true).max_connections(4).build().await.expect("store");
        let item = op(vec![], b"item A");
        tx_unwrap!(store, { store.insert_operation(&item.hash, &item, &Topic::random()).await.unwrap(); });
        let orderer: Orderer<Operation<Vec<Hash>>, Hash, _> = Orderer::new(store.clone());
        orderer.process(item.clone()).await.map_err(|e| format!("{:?}", e.1.to_string())).expect("process");
        n += 1;
        // poll next() k times by hand, then drop it
        let waker = futures_util::task::noop_waker();
        let mut cx = Context::from_waker(&waker);
        let mut returned_early = false;
        {
            let mut fut = pin!(orderer.next());
            for _ in 0..k {
                match fut.as_mut().poll(&mut cx) {
                    Poll::Ready(r) => { returned_early = true; if ready_at.is_none() { ready_at = Some(k); } let _ = r; break; }
                    Poll::Pending => { tokio::time::sleep(Duration::from_millis(3)).await; }
                }
            }
        } // dropped here
        if returned_early { let _ = std::fs::remove_file(&path); break; }
        // a later next() must still return the released item
        let again = tokio::time::timeout(Duration::from_millis(1500), orderer.next()).await;
        let ok = matches!(&again, Ok(Ok(o)) if o.hash == item.hash);
        if !ok {
            lost_at.push(k);
            let class = "released-item-lost-after-next-dropped";
            if reported.insert(class) {
                let obs = match &again { Err(_) => "later next() never returns (queue empty)".to_string(), Ok(Err(e)) => format!("later next() failed: {}", e.1), Ok(Ok(_)) => "another item".to_string() };
                rp_core::report(true, class, json!({"queue": ["A"], "next_polled_times_before_drop": k}), json!({"later_next": obs}),
                    &[]);
            }
        }
        drop(orderer); drop(store);
        let _ = std::fs::remove_file(&path);
    }
    let _ = std::fs::remove_dir_all(&dir);
    println!("{}", json!({"summary": true, "evaluations": n, "distinct_nontrivial": n, "exhaustive": false,
        "rule": "real Orderer::next on a file-backed SQLite store with one ready item: polled k times by hand then dropped, for every k up to completion; a later next() must return the item",
        "bound": format!("k < {max_k}; next() completes after {:?} polls", ready_at), "lost_at_k": lost_at, "violating_classes": reported}));
}
