//! C03 replay: real ingest_operation on SqliteStore::temporary(): for every delivery order of a 5-entry chain
//! (with duplicates, with operations that skip a sequence number, and with forged-id copies of stored entries)
//! the stored log has unique sequence numbers, is a hash-linked gap-free chain and its height never decreases.
use p2panda_core::{Hash, Operation, SigningKey};
use p2panda_store::SqliteStore;
use p2panda_store::logs::LogStore;
use p2panda_stream::ingest::ingest_operation;
use serde_json::json;

fn perms(n: usize) -> Vec<Vec<usize>> {
    if n == 0 { return vec![vec![]]; }
    let mut out = vec![];
    for p in perms(n - 1) { for i in 0..=p.len() { let mut q = p.clone(); q.insert(i, n - 1); out.push(q); } }
    out
}

async fn entries(store: &SqliteStore, sk: &SigningKey) -> Vec<Operation<()>> {
    LogStore::<Operation<()>, p2panda_core::VerifyingKey, u64, u32, Hash>::get_log_entries(store, &sk.verifying_key(), &1u64, None, None)
        .await.unwrap().map(|v| v.into_iter().map(|(o, _)| o).collect()).unwrap_or_default()
}

fn check(es: &[Operation<()>]) -> Option<&'static str> {
    let mut seqs: Vec<u32> = es.iter().map(|o| o.header.seq_num).collect();
    seqs.sort();
    if seqs.windows(2).any(|w| w[0] == w[1]) { return Some("duplicate-sequence-number"); }
    for o in es {
        if o.header.seq_num > 0 {
            match es.iter().find(|p| p.header.seq_num + 1 == o.header.seq_num) {
                None => return Some("gap-in-stored-log"),
                Some(p) => if o.header.backlink != Some(p.header.hash()) { return Some("backlink-does-not-match-stored-predecessor"); }
            }
        }
    }
    None
}

#[tokio::main(flavor = "current_thread")]
async fn main() {
    let _a = rp_core::args();
    let mut n = 0u64;
    let mut reported = std::collections::BTreeSet::new();
    let sk = SigningKey::generate();
    let ch = rp_stream::chain(&sk, 5);
    // extra adversarial deliveries: an operation that skips ahead (valid signature, backlink to entry 1, seq 4),
    // and forged-id copies (same signed header/body, different `hash` id) of entries 0 and 1
    let skip = rp_stream::op(&sk, 4, Some(ch[1].hash), b"skips ahead");
    let mut forged0 = ch[0].clone(); forged0.hash = Hash::digest(b"forged id 0");
    let mut forged1 = ch[1].clone(); forged1.hash = Hash::digest(b"forged id 1");
    let extras = [skip, forged0, forged1];
    let extra_names = ["skip-ahead seq 4 backlinking entry 1", "forged-id copy of entry 0", "forged-id copy of entry 1"];
    let quick = _a.tier != "thorough";
    for (pi, p) in perms(5).into_iter().enumerate() {
        if quick && pi % 4 != 0 { continue; }   // quick tier: every 4th delivery order
        for extra_at in 0..=5usize {
            for ex in 0..extras.len() {
                let store = SqliteStore::temporary().await;
                let mut height: i64 = -1;
                let mut order = vec![];
                let mut seq: Vec<&Operation<()>> = p.iter().map(|i| &ch[*i]).collect();
                seq.insert(extra_at, &extras[ex]);
                for o in seq {
                    let _ = ingest_operation(&store, o, &1u64, &1u64, false).await;
                    n += 1;
                    order.push(o.header.seq_num);
                    let es = entries(&store, &sk).await;
                    let h = es.iter().map(|o| o.header.seq_num as i64).max().unwrap_or(-1);
                    let bad = check(&es).or(if h < height { Some("height-decreased") } else { None });
                    height = h;
                    if let Some(class) = bad {
                        if reported.insert(class) {
                            rp_core::report(true, class, json!({"delivery(seq numbers)": order.clone(), "extra": extra_names[ex]}),
                                json!({"stored_seqs": es.iter().map(|o| o.header.seq_num).collect::<Vec<_>>()}),
                                &["oplog::validate_backlink.ensures#ok_iff_links", "oplog::validate_prunable_backlink.ensures#ok_iff_extends_log", "oplog::ingest_operation.ensures#accepted_extends_log", "oplog::ingest_operation.ensures#strictly_above_head", "oplog::validate_prunable_backlink.ensures#strictly_above_head", "oplog::ingest_operation.safety"]);
                        }
                    }
                }
            }
        }
        if n > 40000 { break; }
    }
    // prune points: a 6-entry chain whose entries 2 and 4 are delivered with the prune flag (missing prefix allowed
    // for them); every delivery order. A delivered operation that is inserted must lie strictly above the stored
    // height, non-flagged stored entries must backlink to their stored predecessor.
    let ch6 = rp_stream::chain(&sk, 6);
    let flagged = [false, false, true, false, true, false];
    for (pi, p) in perms(6).into_iter().enumerate() {
        if quick && pi % 3 != 0 { continue; }
        let store = SqliteStore::temporary().await;
        let mut height: i64 = -1;
        let mut order = vec![];
        for i in p.iter() {
            let o = &ch6[*i];
            let r = ingest_operation(&store, o, &1u64, &1u64, flagged[*i]).await;
            n += 1;
            order.push(o.header.seq_num);
            let es = entries(&store, &sk).await;
            let h = es.iter().map(|o| o.header.seq_num as i64).max().unwrap_or(-1);
            let mut seqs: Vec<u32> = es.iter().map(|o| o.header.seq_num).collect();
            seqs.sort();
            let mut bad = None;
            if seqs.windows(2).any(|w| w[0] == w[1]) { bad = Some("duplicate-sequence-number"); }
            for e in &es {
                if e.header.seq_num > 0 && !flagged[e.header.seq_num as usize] && !es.iter().any(|q| q.header.seq_num + 1 == e.header.seq_num && e.header.backlink == Some(q.header.hash())) { bad = Some("unflagged-entry-without-stored-predecessor"); }
            }
            if matches!(r, Ok(true)) && (o.header.seq_num as i64) <= height { bad = Some("accepted-operation-not-above-stored-height"); }
            if h < height { bad = Some("height-decreased"); }
            height = h;
            if let Some(class) = bad {
                if reported.insert(class) {
                    rp_core::report(true, class, json!({"delivery(seq numbers)": order.clone(), "prune_flag_on_seq": [2, 4]}),
                        json!({"stored_seqs": es.iter().map(|o| o.header.seq_num).collect::<Vec<_>>(), "ingest_result_ok": r.is_ok()}),
                        &["oplog::validate_prunable_backlink.ensures#ok_iff_extends_log", "oplog::ingest_operation.ensures#accepted_extends_log", "oplog::ingest_operation.ensures#strictly_above_head", "oplog::validate_prunable_backlink.ensures#strictly_above_head", "oplog::ingest_operation.safety"]);
                }
            }
        }
    }
    println!("{}", json!({"summary": true, "evaluations": n, "violating_classes": reported}));
}
