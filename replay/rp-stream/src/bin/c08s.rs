//! C08 BOUNDED stand-in: the SQLite log store queries (SQL text executed by SQLite: outside a Rust verifier) against a
//! simple in-memory model of the stored entries. Command sequences over 2 authors x 2 logs: insert chains of length
//! 0..=4, then optionally delete one operation, delete one payload, prune one log; after every command ALL queries are
//! compared with the model: latest entry, log heights for several sets of logs (empty set, unknown logs, duplicates,
//! partially populated sets), ranged entries and ranged sizes for a grid of (after, until) including Some(0) and MAX (None and Some((0, 0)) both count as
//! "nothing in range", but all empty ranges must be answered the same way).
//! Also: no query may panic. Bounded; never counted as proved.
use p2panda_core::{Hash, Operation, SigningKey, VerifyingKey};
use p2panda_store::SqliteStore;
use p2panda_store::logs::LogStore;
use p2panda_store::operations::OperationStore;
use serde_json::{json, Value};
use std::collections::BTreeMap;

type Op = Operation<()>;
type Model = BTreeMap<(usize, u64), Vec<Op>>; // (author index, log) -> stored entries ordered by seq

async fn compare(store: &SqliteStore, keys: &[SigningKey], m: &Model, ctx: &Value, rep: &mut dyn FnMut(&str, Value, Value), n: &mut u64) {
    // how an empty range is answered (None or Some((0, 0))) is not fixed by the statement, but a model of the stored entries
    // answers every empty range the same way: the first answer seen is the reference for the rest of this comparison
    let mut empty_answer: Option<(bool, Value)> = None;
    for (ai, sk) in keys.iter().enumerate() {
        let vk = sk.verifying_key();
        for log in [1u64, 2, 9] {
            let stored: Vec<&Op> = m.get(&(ai, log)).map(|v| v.iter().collect()).unwrap_or_default();
            // latest entry
            *n += 1;
            let got = LogStore::<Op, VerifyingKey, u64, u32, Hash>::get_latest_entry(store, &vk, &log).await;
            let want = stored.iter().max_by_key(|o| o.header.seq_num).map(|o| o.hash);
            match got { Ok(g) => if g.as_ref().map(|o| o.hash) != want { rep("latest-entry-differs-from-model", json!({"ctx": ctx, "author": ai, "log": log}), json!({"got_seq": g.map(|o| o.header.seq_num), "want_seq": stored.iter().map(|o| o.header.seq_num).max()})); },
                Err(e) => rep("latest-entry-query-fails", json!({"ctx": ctx, "author": ai, "log": log}), json!({"error": e.to_string()})) }
            // ranged entries and sizes
            for after in [None, Some(0u32), Some(1), Some(3), Some(u32::MAX)] { for until in [None, Some(0u32), Some(2), Some(u32::MAX)] {
                let in_range: Vec<&&Op> = stored.iter().filter(|o| after.map(|a| o.header.seq_num > a).unwrap_or(true) && o.header.seq_num <= until.unwrap_or(u32::MAX)).collect();
                *n += 2;
                let want_seqs: Vec<u32> = in_range.iter().map(|o| o.header.seq_num).collect();
                match LogStore::<Op, VerifyingKey, u64, u32, Hash>::get_log_entries(store, &vk, &log, after, until).await {
                    Ok(g) => { let gs: Vec<u32> = g.map(|v| v.into_iter().map(|(o, _)| o.header.seq_num).collect()).unwrap_or_default();
                        if gs != want_seqs { rep("ranged-entries-differ-from-model", json!({"ctx": ctx, "author": ai, "log": log, "after": after, "until": until}), json!({"got": gs, "want": want_seqs})); } }
                    Err(e) => rep("ranged-entries-query-fails", json!({"ctx": ctx, "author": ai, "log": log, "after": after, "until": until}), json!({"error": e.to_string()})),
                }
                let want_size = if in_range.is_empty() { None } else { Some((in_range.len() as u32, in_range.iter().map(|o| o.header.to_bytes().len() as u32 + o.header.payload_size as u32).sum::<u32>())) };
                match LogStore::<Op, VerifyingKey, u64, u32, Hash>::get_log_size(store, &vk, &log, after, until).await {
                    Ok(g) => {
                        if in_range.is_empty() && g.map(|x| x.0 == 0).unwrap_or(true) {
                            let here = json!({"author": ai, "log": log, "after": after, "until": until});
                            match &empty_answer { None => empty_answer = Some((g.is_none(), here)),
                                Some((first_none, first)) => if *first_none != g.is_none() { rep("empty-range-size-answer-not-uniform", json!({"ctx": ctx, "first_empty_range": first, "this_empty_range": here}), json!({"first_answer_is_none": first_none, "this_answer_is_none": g.is_none()})); } }
                        }
                        let g = g.filter(|x| x.0 != 0); if g != want_size { rep("ranged-size-differs-from-model", json!({"ctx": ctx, "author": ai, "log": log, "after": after, "until": until}), json!({"got": g, "want": want_size})); } }
                    Err(e) => if want_size.is_some() { rep("ranged-size-query-fails", json!({"ctx": ctx, "author": ai, "log": log, "after": after, "until": until}), json!({"error": e.to_string()})) },
                }
            } }
        }
        // heights for sets of logs
        for logs in [vec![], vec![1u64], vec![2], vec![1, 2], vec![1, 9], vec![9], vec![1, 1], vec![2, 9, 1]] {
            *n += 1;
            let mut want: BTreeMap<u64, u32> = BTreeMap::new();
            for l in &logs { if let Some(h) = m.get(&(ai, *l)).and_then(|v| v.iter().map(|o| o.header.seq_num).max()) { want.insert(*l, h); } }
            let want = if want.is_empty() { None } else { Some(want) };
            match LogStore::<Op, VerifyingKey, u64, u32, Hash>::get_log_heights(store, &vk, &logs).await {
                Ok(g) => if g != want { rep("log-heights-differ-from-model", json!({"ctx": ctx, "author": ai, "logs": logs}), json!({"got": g, "want": want})); },
                Err(e) => rep("log-heights-query-fails", json!({"ctx": ctx, "author": ai, "logs": logs}), json!({"error": e.to_string()})),
            }
        }
    }
}

fn main() {
    let a = rp_core::args();
    let rt = tokio::runtime::Builder::new_current_thread().enable_all().build().unwrap();
    std::panic::set_hook(Box::new(|_| {}));
    let keys = vec![SigningKey::from_bytes(&[1u8; 32]), SigningKey::from_bytes(&[2u8; 32])];
    let mut reported = std::collections::BTreeSet::new();
    let mut out: Vec<(String, Value, Value)> = vec![];
    let mut n = 0u64;
    let mut scenarios = 0u64;
    let lens: Vec<u32> = if a.tier == "thorough" { vec![0, 1, 2, 4] } else { vec![0, 1, 4] };
    for &n1 in &lens { for &n2 in &lens {
        for del in [None, Some(0u32), Some(1)] { for delp in [None, Some(1u32)] { for prune in [None, Some(0u32), Some(1), Some(3), Some(u32::MAX)] {
            if a.tier != "thorough" && del.is_some() && delp.is_some() && prune.is_some() { continue; }
            scenarios += 1;
            let ctx = json!({"alice_log1_len": n1, "alice_log2_len": n2, "bob_log1_len": 2, "delete_op_seq(alice,log1)": del, "delete_payload_seq(alice,log1)": delp, "prune_until(alice,log1)": prune});
            let r = std::panic::catch_unwind(std::panic::AssertUnwindSafe(|| {
                let mut local: Vec<(String, Value, Value)> = vec![];
                let mut cnt = 0u64;
                rt.block_on(async {
                    let mut rep = |c: &str, i: Value, o: Value| local.push((c.to_string(), i, o));
                    let store = SqliteStore::temporary().await;
                    let mut m: Model = Model::new();
                    for (ai, log, len, tag) in [(0usize, 1u64, n1, "a1"), (0, 2, n2, "a2"), (1, 1, 2, "b1")] {
                        let mut v: Vec<Op> = vec![];
                        for i in 0..len { let bl = v.last().map(|o: &Op| o.hash); v.push(rp_stream::op(&keys[ai], i, bl, format!("{tag} {i}").as_bytes())); }
                        for o in &v { p2panda_stream::ingest::ingest_operation(&store, o, &log, &1u64, false).await.unwrap(); }
                        m.insert((ai, log), v);
                    }
                    compare(&store, &keys, &m, &ctx, &mut rep, &mut cnt).await;
                    if let Some(s) = del { if let Some(pos) = m[&(0, 1)].iter().position(|o| o.header.seq_num == s) {
                        let id = m[&(0, 1)][pos].hash;
                        { use p2panda_store::Transaction; let permit = store.begin().await.unwrap(); OperationStore::<Op, Hash>::delete_operation(&store, &id).await.unwrap(); store.commit(permit).await.unwrap(); }
                        m.get_mut(&(0, 1)).unwrap().remove(pos);
                        compare(&store, &keys, &m, &ctx, &mut rep, &mut cnt).await;
                    } }
                    if let Some(s) = delp { if let Some(pos) = m[&(0, 1)].iter().position(|o| o.header.seq_num == s) {
                        let id = m[&(0, 1)][pos].hash;
                        OperationStore::<Op, Hash>::delete_operation_payload(&store, &id).await.unwrap();
                        compare(&store, &keys, &m, &ctx, &mut rep, &mut cnt).await;
                    } }
                    if let Some(u) = prune {
                        let deleted = LogStore::<Op, VerifyingKey, u64, u32, Hash>::prune_entries(&store, &keys[0].verifying_key(), &1u64, &u).await.unwrap();
                        let before = m[&(0, 1)].len();
                        m.get_mut(&(0, 1)).unwrap().retain(|o| o.header.seq_num >= u);
                        if deleted as usize != before - m[&(0, 1)].len() { rep("prune-count-differs-from-model", ctx.clone(), json!({"reported": deleted, "want": before - m[&(0, 1)].len()})); }
                        compare(&store, &keys, &m, &ctx, &mut rep, &mut cnt).await;
                    }
                });
                (local, cnt)
            }));
            match r {
                Ok((local, cnt)) => { n += cnt; out.extend(local); }
                Err(p) => { let msg = p.downcast_ref::<String>().cloned().or(p.downcast_ref::<&str>().map(|s| s.to_string())).unwrap_or_default(); out.push(("log-store-query-panics".into(), ctx.clone(), json!({"panic": msg}))); }
            }
        } } }
    } }
    // large announced sizes: header-only operations (body not stored) whose header announces a big payload; sizes are summed
    // by the store, so the totals get close to / beyond u32::MAX. No query may panic; a total that does not fit must be an Err.
    for sizes in [vec![u32::MAX - 400], vec![u32::MAX], vec![u32::MAX / 2, u32::MAX / 2], vec![u32::MAX, 10]] {
        scenarios += 1;
        let ctx = json!({"header_only_operations_with_announced_payload_sizes": sizes});
        let keys2 = keys.clone();
        let r = std::panic::catch_unwind(std::panic::AssertUnwindSafe(|| {
            rt.block_on(async {
                let store = SqliteStore::temporary().await;
                let mut bl = None;
                let mut want: u64 = 0;
                for (i, sz) in sizes.iter().enumerate() {
                    let mut header = p2panda_core::Header::<()> { verifying_key: keys2[0].verifying_key(), version: 1, signature: None, payload_size: *sz, payload_hash: Some(Hash::digest(b"announced")), seq_num: i as u32, backlink: bl, extensions: () };
                    header.sign(&keys2[0]);
                    want += header.to_bytes().len() as u64 + *sz as u64;
                    let o = Op { hash: header.hash(), header, body: None };
                    bl = Some(o.hash);
                    { use p2panda_store::Transaction; let permit = store.begin().await.unwrap(); OperationStore::<Op, Hash>::insert_operation(&store, &o.hash, &o, &1u64).await.unwrap(); store.commit(permit).await.unwrap(); }
                }
                let got = LogStore::<Op, VerifyingKey, u64, u32, Hash>::get_log_size(&store, &keys2[0].verifying_key(), &1u64, None, None).await;
                (want, got.map_err(|e| e.to_string()))
            })
        }));
        n += 1;
        match r {
            Err(p) => { let msg = p.downcast_ref::<String>().cloned().or(p.downcast_ref::<&str>().map(|s| s.to_string())).unwrap_or_default(); out.push(("log-size-query-panics-on-large-totals".into(), ctx.clone(), json!({"panic": msg}))); }
            // a total that does not fit the u32 result is reported as u32::MAX ("at least this much"), never wrapped around
            Ok((want, Ok(Some((_, total))))) => if total as u64 != want.min(u32::MAX as u64) { out.push(("log-size-wraps-on-large-totals".into(), ctx.clone(), json!({"got_total": total, "model_total": want}))); },
            Ok(_) => {}
        }
    }
    for (c, i, o) in out { if reported.insert(c.clone()) { rp_core::report(true, &c, i, o, if c.contains("large-totals") { &["logstore_glue::LogStore@SqliteStore::get_log_size.safety"][..] } else { &[][..] }); } }
    println!("{}", json!({"summary": true, "function": "p2panda-store/src/logs/sqlite/mod.rs LogStore@SqliteStore (get_latest_entry / get_log_heights / get_log_entries / get_log_size / prune_entries)",
        "evaluations": n, "distinct_nontrivial": scenarios, "exhaustive": true,
        "rule": "every query of the real SQLite log store compared with an in-memory model after each command of: insert 3 chains (2 authors, 2 logs), delete an operation, delete a payload, prune; (after, until) grid incl. Some(0), MAX and after >= until (empty ranges: None or Some((0,0)), but uniformly); log sets incl. empty, unknown, duplicate, partially populated; distinct_nontrivial = command scenarios",
        "bound": format!("chain lengths {:?}, 1 delete, 1 payload delete, 1 prune per scenario", lens), "violating_classes": reported}));
}
