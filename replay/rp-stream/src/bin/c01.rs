//! C01 replay: real ingest_operation on SqliteStore::temporary(): every single-field / single-byte tampering of
//! a valid operation (header field, signature byte, body byte, attached/replaced body, also as a re-delivery of
//! an already stored operation) must be rejected and leave the store unchanged.
use p2panda_core::{Body, Hash, Operation, SigningKey};
use p2panda_store::SqliteStore;
use p2panda_store::operations::OperationStore;
use p2panda_stream::ingest::ingest_operation;
use serde_json::json;

async fn count(store: &SqliteStore, sk: &SigningKey) -> usize { rp_stream::stored_seqs(store, sk).await.len() }

#[tokio::main(flavor = "current_thread")]
async fn main() {
    let _a = rp_core::args();
    let mut n = 0u64;
    let mut reported = std::collections::BTreeSet::new();
    let sk = SigningKey::generate();
    let other = SigningKey::generate();
    let ch = rp_stream::chain(&sk, 3);
    let bodyless = rp_stream::op(&sk, 0, None, b"");
    // tampered variants of operation `o` (each with a human-readable label)
    let variants = |o: &Operation<()>| -> Vec<(String, Operation<()>)> {
        let mut v: Vec<(String, Operation<()>)> = vec![];
        let mut t = o.clone(); t.header.version = 2; v.push(("header.version".into(), t));
        let mut t = o.clone(); t.header.payload_size = t.header.payload_size.wrapping_add(1); v.push(("header.payload_size+1".into(), t));
        let mut t = o.clone(); t.header.payload_hash = Some(Hash::digest(b"x")); v.push(("header.payload_hash".into(), t));
        let mut t = o.clone(); t.header.seq_num += 1; v.push(("header.seq_num+1".into(), t));
        let mut t = o.clone(); t.header.backlink = Some(Hash::digest(b"y")); v.push(("header.backlink".into(), t));
        let mut t = o.clone(); t.header.verifying_key = other.verifying_key(); v.push(("header.verifying_key".into(), t));
        let mut t = o.clone(); t.header.signature = None; v.push(("signature removed".into(), t));
        let mut t = o.clone(); t.header.sign(&other); v.push(("re-signed by another key".into(), t));
        if let Some(b) = &o.body {
            let bytes = b.to_bytes();
            for i in [0usize, bytes.len() - 1] {
                let mut bb = bytes.clone(); bb[i] ^= 1;
                let mut t = o.clone(); t.body = Some(Body::new(&bb)); v.push((format!("body byte {i} flipped"), t));
            }
            let mut bb = bytes.clone(); bb.pop();
            let mut t = o.clone(); t.body = Some(Body::new(&bb)); v.push(("body truncated".into(), t));
        } else {
            let mut t = o.clone(); t.body = Some(Body::new(b"smuggled")); v.push(("body attached to header without payload claim".into(), t));
            let mut t = o.clone(); t.body = Some(Body::new(b"")); v.push(("empty body attached to header without payload claim".into(), t));
        }
        v
    };
    for (first_delivery, base) in [(true, &ch[0]), (false, &ch[0]), (true, &bodyless), (false, &bodyless)] {
        for (label, t) in variants(base) {
            let store = SqliteStore::temporary().await;
            if !first_delivery {
                assert_eq!(ingest_operation(&store, base, &1u64, &1u64, false).await.ok(), Some(true));
            }
            let before = count(&store, &sk).await;
            let r = ingest_operation(&store, &t, &1u64, &1u64, false).await;
            n += 1;
            let after = count(&store, &sk).await;
            let stored_other = rp_stream::stored_seqs(&store, &other).await.len();
            // a re-delivered operation whose only difference is in the header is a *different* id only if the header
            // changed; here t.hash is unchanged, so Ok(false) ("already exists") would accept the tampered copy
            if r.is_ok() || after != before || stored_other != 0 {
                let class = if !first_delivery { "tampered-redelivery-accepted" } else if label.contains("body") { "tampered-body-accepted" } else { "tampered-header-accepted" };
                if reported.insert(class) {
                    rp_core::report(true, class, json!({"base": if base.body.is_some() { "operation with body" } else { "operation without body" }, "tamper": label, "redelivery_of_stored_operation": !first_delivery}),
                        json!({"ingest_result": format!("{r:?}"), "log_entries_before": before, "log_entries_after": after}),
                        &["oplog::ingest_operation.ensures#only_valid_operations_accepted", "oplog::validate_operation.ensures#ok_iff_operation_valid", "oplog::validate_header.ensures#ok_iff_header_well_formed_and_authentic", "oplog::ingest_operation.ensures#invalid_operation_rejected", "oplog::ingest_operation.safety"]);
                }
            }
            let _ = OperationStore::<Operation<()>, Hash>::has_operation(&store, &t.hash).await;
        }
    }
    // degenerate author keys: small-order points of the curve (e.g. the neutral element) with the signature (R = neutral,
    // s = 0) satisfy the plain ed25519 verification equation for EVERY message; a strict verification refuses them
    let small_order: [[u8; 32]; 3] = [
        { let mut b = [0u8; 32]; b[0] = 1; b },                                            // neutral element
        [0xec, 0xff, 0xff, 0xff, 0xff, 0xff, 0xff, 0xff, 0xff, 0xff, 0xff, 0xff, 0xff, 0xff, 0xff, 0xff, 0xff, 0xff, 0xff, 0xff, 0xff, 0xff, 0xff, 0xff, 0xff, 0xff, 0xff, 0xff, 0xff, 0xff, 0xff, 0x7f], // order 2
        [0u8; 32],                                                                           // order 4
    ];
    for kb in small_order {
        let Ok(vk) = p2panda_core::VerifyingKey::from_bytes(&kb) else { continue };
        let mut sig = [0u8; 64]; sig[0] = 1;
        for (seq, body) in [(0u32, &b"anything"[..]), (0, &b""[..])] {
            let b = Body::new(body);
            let header = p2panda_core::Header::<()> { verifying_key: vk, version: 1, signature: Some(p2panda_core::identity::Signature::from_bytes(&sig)), payload_size: b.size(),
                payload_hash: if b.size() == 0 { None } else { Some(b.hash()) }, seq_num: seq, backlink: None, extensions: () };
            let t = Operation { hash: header.hash(), header, body: if b.size() == 0 { None } else { Some(b) } };
            let store = SqliteStore::temporary().await;
            let r = ingest_operation(&store, &t, &1u64, &1u64, false).await;
            n += 1;
            if r.is_ok() && reported.insert("forged-operation-of-small-order-key-accepted") {
                rp_core::report(true, "forged-operation-of-small-order-key-accepted", json!({"author_key_bytes": format!("{kb:02x?}"), "signature": "R = neutral element, s = 0", "body": String::from_utf8_lossy(body)}),
                    json!({"ingest_result": format!("{r:?}")}), &["oplog::ingest_operation.ensures#only_valid_operations_accepted", "oplog::Header::verify.safety", "oplog::validate_header.ensures#ok_iff_header_well_formed_and_authentic"]);
            }
        }
    }
    println!("{}", json!({"summary": true, "evaluations": n, "violating_classes": reported}));
}
