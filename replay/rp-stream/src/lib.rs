//! helpers: signed test operations and a view of a log in the real SQLite store
use p2panda_core::{Body, Hash, Header, Operation, SigningKey};
use p2panda_store::SqliteStore;
use p2panda_store::logs::LogStore;

pub fn op(sk: &SigningKey, seq: u32, backlink: Option<Hash>, body: &[u8]) -> Operation<()> {
    let body = Body::new(body);
    let mut header = Header::<()> {
        verifying_key: sk.verifying_key(),
        version: 1,
        signature: None,
        payload_size: body.size(),
        payload_hash: if body.size() == 0 { None } else { Some(body.hash()) },
        seq_num: seq,
        backlink,
        extensions: (),
    };
    header.sign(sk);
    Operation { hash: header.hash(), header, body: if body.size() == 0 { None } else { Some(body) } }
}

/// a hash-linked chain 0..n
pub fn chain(sk: &SigningKey, n: u32) -> Vec<Operation<()>> {
    let mut v: Vec<Operation<()>> = vec![];
    for i in 0..n {
        let bl = v.last().map(|o| o.hash);
        v.push(op(sk, i, bl, format!("body {i}").as_bytes()));
    }
    v
}

/// sequence numbers currently stored for (author, log 1)
pub async fn stored_seqs(store: &SqliteStore, sk: &SigningKey) -> Vec<u32> {
    let entries = LogStore::<Operation<()>, p2panda_core::VerifyingKey, u64, u32, Hash>::get_log_entries(store, &sk.verifying_key(), &1u64, None, None)
        .await
        .unwrap();
    entries.map(|v| v.into_iter().map(|(o, _)| o.header.seq_num).collect()).unwrap_or_default()
}
