//! C15 BOUNDED stand-in (crash and restart): a child process opens a node on a file-backed SQLite database, publishes
//! n messages into a topic stream (explicit acknowledgement), acknowledges some of them, and is then KILLED (abort(), no
//! destructors, no graceful shutdown) at a chosen point between two API calls. The parent re-opens the database with a new
//! node, opens the topic stream from its frontier and collects what is replayed.
//! Checked: exactly the stored operations of the log that were not acknowledged (neither themselves nor a later one) are
//! delivered again, in log order; acknowledged ones are not.
//! Bound: 1 author, 1 log, n <= 3 messages, every (acks, crash point) combination; crash points are between API calls only
//! (a crash inside a call is decided by SQLite's journal, out of reach here). Labelled bounded; never counted as proved.
use futures_util::StreamExt;
use p2panda::node::AckPolicy;
use p2panda::streams::StreamEvent;
use p2panda_core::{Hash, Topic};
use serde_json::json;
use std::io::Write;
use std::time::Duration;

fn topic_from(hex: &str) -> Topic { let mut b = [0u8; 32]; for i in 0..32 { b[i] = u8::from_str_radix(&hex[2 * i..2 * i + 2], 16).unwrap(); } Topic::from(b) }
fn hex(b: &[u8]) -> String { b.iter().map(|x| format!("{x:02x}")).collect() }

/// child: publish `n` messages, ack the ones whose index is in `acks` (in that order, interleaved: ack i right after
/// publishing message max(i, ...)), abort after `steps` API calls. Every completed call is logged to `log`.
async fn child(db: &str, topic: Topic, n: usize, acks: &[usize], steps: usize, log: &str) {
    let node = p2panda::builder().database_url(db).ack_policy(AckPolicy::Explicit).spawn().await.unwrap();
    let (tx, mut rx) = node.stream::<String>(topic).await.unwrap();
    let mut f = std::fs::OpenOptions::new().create(true).append(true).open(log).unwrap();
    let mut done = 0usize;
    let mut ids: Vec<Hash> = vec![];
    // script: P0 .. P(n-1), then the acks
    for i in 0..n {
        if done == steps { std::process::abort(); }
        let processing = tx.publish(format!("message {i}")).await.unwrap();
        let id = processing.hash();
        processing.await.unwrap();
        // the stream delivers it to the application
        let _ = tokio::time::timeout(Duration::from_secs(5), rx.next()).await;
        ids.push(id);
        writeln!(f, "P {}", hex(id.as_bytes())).unwrap(); f.sync_all().unwrap();
        done += 1;
    }
    for a in acks {
        if done == steps { std::process::abort(); }
        rx.ack(ids[*a]).await.unwrap();
        writeln!(f, "A {}", hex(ids[*a].as_bytes())).unwrap(); f.sync_all().unwrap();
        done += 1;
    }
    std::process::abort();
}

#[tokio::main]
async fn main() {
    let argv: Vec<String> = std::env::args().collect();
    if argv.len() > 1 && argv[1] == "--child-forged" {
        // first run of the rejected-operation scenario, in a process of its own that is killed at the end (a node dropped
        // inside the parent process may leave an open SQLite transaction behind that blocks the restarted node: that is a
        // different matter (C10) and must not disturb this stand-in)
        use p2panda::operation::Extensions;
        use p2panda_core::cbor::encode_cbor;
        use p2panda_core::test_utils::TestLog;
        let (url, topic, with_body, log) = (&argv[2], topic_from(&argv[3]), argv[4] == "1", &argv[5]);
        let ext = Extensions::from_topic(topic);
        let panda = TestLog::new();
        let o0 = panda.operation(&encode_cbor(&"first").unwrap(), ext.clone());
        let o1 = panda.operation(&encode_cbor(&"second").unwrap(), ext.clone());
        let forged = { let attacker = TestLog::new(); let body = if with_body { encode_cbor(&"forged").unwrap() } else { vec![] }; let mut op = attacker.operation(&body, ext.clone()); for _ in 0..7 { op = attacker.operation(&body, ext.clone()); } op.header.verifying_key = panda.author(); op };
        let mut f = std::fs::OpenOptions::new().create(true).append(true).open(log).unwrap();
        let ids = [hex(o0.hash.as_bytes()), hex(o1.hash.as_bytes())];
        let node = p2panda::builder().database_url(url).ack_policy(AckPolicy::Explicit).spawn().await.unwrap();
        let (tx, mut rx) = node.stream::<String>(topic).await.unwrap();
        let imp = tx.import(futures_util::stream::iter(vec![o0, o1])).await.unwrap(); let _ = imp.await;
        let mut seen = 0; while seen < 2 { match tokio::time::timeout(Duration::from_secs(120), rx.next()).await { Ok(Some(StreamEvent::Processed { .. })) => { writeln!(f, "P {}", ids[seen]).unwrap(); f.sync_all().unwrap(); seen += 1 }, Ok(Some(_)) => {}, _ => break } }
        let imp = tx.import(futures_util::stream::iter(vec![forged])).await.unwrap(); let _ = imp.await;
        let _ = tokio::time::timeout(Duration::from_millis(500), rx.next()).await;
        writeln!(f, "F done").unwrap(); f.sync_all().unwrap();
        std::process::abort();
    }
    if argv.len() > 1 && argv[1] == "--child-two" {
        // two authors in one topic; the only operation of the author with the LOWER key is deleted again (its topic association
        // stays), the author with the higher key has two stored, unacknowledged operations; then the process is killed
        use p2panda::operation::Extensions;
        use p2panda_core::cbor::encode_cbor;
        use p2panda_core::test_utils::TestLog;
        use p2panda_store::operations::OperationStore;
        let (url, topic, log) = (&argv[2], topic_from(&argv[3]), &argv[4]);
        let ext = Extensions::from_topic(topic);
        let (l1, l2) = (TestLog::new(), TestLog::new());
        let (low, high) = if l1.author() < l2.author() { (l1, l2) } else { (l2, l1) };
        let lo0 = low.operation(&encode_cbor(&"low").unwrap(), ext.clone());
        let h0 = high.operation(&encode_cbor(&"high 0").unwrap(), ext.clone());
        let h1 = high.operation(&encode_cbor(&"high 1").unwrap(), ext.clone());
        let mut f = std::fs::OpenOptions::new().create(true).append(true).open(log).unwrap();
        let node = p2panda::builder().database_url(url).ack_policy(AckPolicy::Explicit).spawn().await.unwrap();
        let (tx, mut rx) = node.stream::<String>(topic).await.unwrap();
        let lo_id = lo0.hash;
        let ids = [hex(h0.hash.as_bytes()), hex(h1.hash.as_bytes())];
        let imp = tx.import(futures_util::stream::iter(vec![lo0, h0, h1])).await.unwrap(); let _ = imp.await;
        let mut seen = 0; while seen < 3 { match tokio::time::timeout(Duration::from_secs(120), rx.next()).await { Ok(Some(StreamEvent::Processed { .. })) => seen += 1, Ok(Some(_)) => {}, _ => break } }
        if seen == 3 {
            use p2panda_store::Transaction;
            let store = node.store();
            let permit = store.begin().await.unwrap();
            let _ = OperationStore::<p2panda::operation::Operation, Hash>::delete_operation(&store, &lo_id).await;
            store.commit(permit).await.unwrap();
            for i in ids.iter() { writeln!(f, "P {i}").unwrap(); }
            writeln!(f, "F done").unwrap(); f.sync_all().unwrap();
        }
        std::process::abort();
    }
    if argv.len() > 1 && argv[1] == "--child" {
        let acks: Vec<usize> = if argv[5].is_empty() { vec![] } else { argv[5].split(',').map(|x| x.parse().unwrap()).collect() };
        child(&argv[2], topic_from(&argv[3]), argv[4].parse().unwrap(), &acks, argv[6].parse().unwrap(), &argv[7]).await;
        return;
    }
    let a = rp_core::args();
    let max_n = if a.tier == "thorough" { 3 } else { 2 };
    let mut nonempty = 0u64;
    let dir = std::env::current_dir().unwrap().join("../../.cache/tmp-c15");
    let dir = if dir.parent().map(|p| p.exists()).unwrap_or(false) { dir } else { std::path::PathBuf::from("/verif/.cache/tmp-c15") };
    let _ = std::fs::remove_dir_all(&dir);
    std::fs::create_dir_all(&dir).unwrap();
    let exe = std::env::current_exe().unwrap();
    let mut n_eval = 0u64;
    let mut reported = std::collections::BTreeSet::new();
    let ack_sets: Vec<Vec<usize>> = vec![vec![], vec![0], vec![1], vec![0, 1], vec![2], vec![1, 0]];
    let mut case = 0;
    for n in 1..=max_n {
        for acks in ack_sets.iter().filter(|a| a.iter().all(|i| *i < n)) {
            for steps in 1..=(n + acks.len()) {
                case += 1;
                n_eval += 1;
                if std::env::var("RP_DEBUG").is_ok() { eprintln!("[c15] case {case}: n={n} acks={acks:?} steps={steps}"); }
                let db = dir.join(format!("c{case}.sqlite"));
                let log = dir.join(format!("c{case}.log"));
                let url = format!("sqlite://{}?mode=rwc", db.display());
                let topic = Topic::random();
                let st = std::process::Command::new(&exe).args(["--child", &url, &hex(topic.as_bytes()), &n.to_string(), &acks.iter().map(|x| x.to_string()).collect::<Vec<_>>().join(","), &steps.to_string(), log.to_str().unwrap()])
                    .stdout(std::process::Stdio::null()).stderr(std::process::Stdio::null()).status();
                if st.is_err() { continue; }
                let lines: Vec<String> = std::fs::read_to_string(&log).unwrap_or_default().lines().map(|l| l.to_string()).collect();
                let published: Vec<String> = lines.iter().filter(|l| l.starts_with("P ")).map(|l| l[2..].to_string()).collect();
                let acked: Vec<String> = lines.iter().filter(|l| l.starts_with("A ")).map(|l| l[2..].to_string()).collect();
                // acknowledged height: the highest published index that was acked (an ack covers the earlier ones of the log)
                let height = acked.iter().filter_map(|a| published.iter().position(|p| p == a)).max();
                let want: Vec<String> = published.iter().enumerate().filter(|(i, _)| height.map(|h| *i > h).unwrap_or(true)).map(|(_, p)| p.clone()).collect();
                // restart
                let node = match p2panda::builder().database_url(&url).ack_policy(AckPolicy::Explicit).spawn().await { Ok(n) => n, Err(_) => continue };
                let (_tx, mut rx) = node.stream::<String>(topic).await.unwrap();
                let mut got: Vec<String> = vec![];
                let mut events = vec![];
                loop {
                    // wait long while something is still expected (a loaded machine must not look like a lost replay); only the
                    // ABSENCE of a replay is decided by a short wait
                    let wait = if got.len() < want.len() || (!want.is_empty() && !events.contains(&"replay-ended")) { 120_000 } else { 1500 };
                    match tokio::time::timeout(Duration::from_millis(wait), rx.next()).await {
                        Ok(Some(StreamEvent::Processed { operation, .. })) => { got.push(hex(operation.id().as_bytes())); events.push("processed"); }
                        Ok(Some(StreamEvent::ReplayStarted { .. })) => events.push("replay-started"),
                        Ok(Some(StreamEvent::ReplayEnded)) => { events.push("replay-ended"); break; }
                        Ok(Some(_)) => {}
                        Ok(None) | Err(_) => break,
                    }
                }
                drop(rx); drop(node);
                if !want.is_empty() && got == want { nonempty += 1; }
                if got != want {
                    let class = if got.iter().any(|g| !want.contains(g)) { "acknowledged-operation-delivered-again-after-restart" } else { "unacknowledged-operation-not-replayed-after-restart" };
                    if reported.insert(class) {
                        rp_core::report(true, class, json!({"published": published.len(), "acknowledged(indexes, in order)": acks.iter().take(acked.len()).collect::<Vec<_>>(), "killed_after_api_calls": steps}),
                            json!({"replayed(indexes)": got.iter().map(|g| published.iter().position(|p| p == g)).collect::<Vec<_>>(), "expected(indexes)": want.iter().map(|g| published.iter().position(|p| p == g)).collect::<Vec<_>>(), "events": events}),
                            &["acked::Acked::nacked_log_ranges.ensures#from_frontier_exactly_the_stored_operations_above_the_acknowledged_height", "acked::Acked::ack.ensures#ok_advances_to_pointwise_max", "acked::Acked::nacked_log_ranges.safety"]);
                    }
                }
            }
        }
    }
    // ---- operations that FAIL processing must not move the acknowledged frontier: an author's two stored, unacknowledged
    // operations; then invalid operations claiming that author arrive (forged signature, with and without a body, at a
    // higher sequence number); restart; both stored operations must be replayed
    for mode in 0..3u8 {
        let with_body = mode == 1;
        n_eval += 1;
        let db = dir.join(format!("f{mode}.sqlite"));
        let log = dir.join(format!("f{mode}.log"));
        let url = format!("sqlite://{}?mode=rwc", db.display());
        let topic = Topic::random();
        let st = if mode == 2 { std::process::Command::new(&exe).args(["--child-two", &url, &hex(topic.as_bytes()), log.to_str().unwrap()]).stdout(std::process::Stdio::null()).stderr(std::process::Stdio::null()).status() }
            else { std::process::Command::new(&exe).args(["--child-forged", &url, &hex(topic.as_bytes()), if with_body { "1" } else { "0" }, log.to_str().unwrap()])
            .stdout(std::process::Stdio::null()).stderr(std::process::Stdio::null()).status() };
        if st.is_err() { continue; }
        let lines: Vec<String> = std::fs::read_to_string(&log).unwrap_or_default().lines().map(|l| l.to_string()).collect();
        let want: Vec<String> = lines.iter().filter(|l| l.starts_with("P ")).map(|l| l[2..].to_string()).collect();
        if want.len() != 2 || !lines.iter().any(|l| l.starts_with("F ")) { continue; }   // the first run did not get that far: nothing to judge
        if std::env::var("RP_DEBUG").is_ok() { eprintln!("[c15]   first node dropped; restarting"); }
        let node = p2panda::builder().database_url(&url).ack_policy(AckPolicy::Explicit).spawn().await.unwrap();
        let (_tx, mut rx) = node.stream::<String>(topic).await.unwrap();
        let mut got = vec![];
        // two operations are expected: wait long for them (a correct node replays within milliseconds; a node that lost the
        // frontier never sends them, which costs one long wait only on a broken tree)
        loop { match tokio::time::timeout(Duration::from_secs(if got.len() < 2 { 60 } else { 3 }), rx.next()).await { Ok(Some(StreamEvent::Processed { operation, .. })) => got.push(hex(operation.id().as_bytes())), Ok(Some(StreamEvent::ReplayEnded)) => break, Ok(Some(_)) => {}, _ => break } }
        if got == want { nonempty += 1; }
        if got != want && reported.insert("unacknowledged-operation-not-replayed-after-restart") {
            rp_core::report(true, "unacknowledged-operation-not-replayed-after-restart", json!({"stored_unacknowledged": 2, "then": if mode == 2 { "another author of the topic (lower key) has its only operation deleted again".to_string() } else { format!("an invalid operation claiming the same author at seq 7 ({}) is imported and rejected", if with_body { "with a body" } else { "without a body" }) }, "restart": true}),
                json!({"replayed": got.len(), "expected": 2}), &["acked::Acked::ack.ensures#ok_advances_to_pointwise_max", "acked::Acked::nacked_log_ranges.ensures#from_frontier_exactly_the_stored_operations_above_the_acknowledged_height"]);
        }
    }
    let _ = std::fs::remove_dir_all(&dir);
    println!("{}", json!({"summary": true, "function": "crash (kill between API calls) + restart on file-backed SQLite: p2panda/src/streams/{replay.rs replay_log_ranges, stream.rs, forge.rs} and the SQL stores, through the public Node API",
        "evaluations": n_eval, "distinct_nontrivial": nonempty, "exhaustive": true,
        "rule": "child process publishes n <= 3 messages and acknowledges a chosen list of them, is aborted after every possible number of completed API calls; the parent restarts a node on the same database file and compares what the stream replays from its frontier with: published and not covered by an acknowledgement",
        "bound": format!("1 author, 1 log, n <= {max_n}, acknowledgement lists over the published messages, kill points between API calls; plus three fixed histories: a rejected forged operation at a higher height (with / without body), and a second author of the topic with a lower key whose only operation was deleted again"), "violating_classes": reported}));
}
