//! C07 replay (persisted-cursor clause): the real Acked::ack / Acked::cursor (hook: `pub use acked::Acked`) on a real
//! SQLite store. Acks for several authors in every order of a small multiset of heights: the persisted cursor must be
//! the pointwise maximum after every step (never backwards); an ack for an operation of another topic must be rejected
//! and leave the persisted cursor unchanged.
use p2panda::operation::{Extensions, LogId};
use p2panda::streams::Acked;
use p2panda_core::{Header, SigningKey, Topic, VerifyingKey};
use p2panda_store::SqliteStore;
use serde_json::json;
use std::collections::BTreeMap;

fn header(sk: &SigningKey, topic: Topic, seq: u32) -> Header<Extensions> {
    let mut h = Header::<Extensions> { verifying_key: sk.verifying_key(), version: 1, signature: None, payload_size: 0, payload_hash: None,
        seq_num: seq, backlink: None, extensions: Extensions::from_topic(topic) };
    h.sign(sk);
    h
}
fn perms(n: usize) -> Vec<Vec<usize>> {
    if n == 0 { return vec![vec![]]; }
    let mut out = vec![];
    for p in perms(n - 1) { for i in 0..=p.len() { let mut q = p.clone(); q.insert(i, n - 1); out.push(q); } }
    out
}
async fn state(acked: &Acked) -> BTreeMap<(VerifyingKey, LogId), u32> {
    let c = acked.cursor().await.unwrap();
    c.state().iter().flat_map(|(a, m)| m.iter().map(move |(l, h)| ((*a, *l), *h))).collect()
}

#[tokio::main]
async fn main() {
    let _a = rp_core::args();
    let mut n = 0u64;
    let mut reported = std::collections::BTreeSet::new();
    let obl = ["acked::Acked::ack.ensures#ok_advances_to_pointwise_max", "acked::Acked::ack.ensures#never_moves_backwards", "acked::Acked::ack.ensures#other_topic_rejected_cursor_unchanged",
        "acked::Acked::ack.ensures#error_leaves_persisted_cursor_unchanged", "acked::Acked::ack.ensures#only_own_cursor_changes", "acked::Acked::ack.safety", "acked::Acked::cursor.ensures#persisted_or_empty",
        "acked::Cursor::advance.ensures#pointwise_max_at_key", "acked::Cursor::advance.ensures#others_unchanged"];
    let (alice, bob) = (SigningKey::generate(), SigningKey::generate());
    let (topic, other) = (Topic::random(), Topic::random());
    // acks: (author index, topic index, seq)
    let acks: Vec<(usize, usize, u32)> = vec![(0, 0, 3), (0, 0, 1), (1, 0, 2), (0, 1, 9), (1, 0, 2), (0, 0, 0)];
    for p in perms(acks.len()) {
        let store = SqliteStore::temporary().await;
        let acked = Acked::new(store.clone(), topic);
        let mut want: BTreeMap<(VerifyingKey, LogId), u32> = BTreeMap::new();
        for i in &p {
            let (who, tp, seq) = acks[*i];
            let sk = if who == 0 { &alice } else { &bob };
            let t = if tp == 0 { topic } else { other };
            let before = state(&acked).await;
            let r = acked.ack(header(sk, t, seq)).await;
            let after = state(&acked).await;
            n += 1;
            let inp = json!({"acks(author,topic(0=own),seq)": p.iter().map(|i| acks[*i]).collect::<Vec<_>>(), "at": acks[*i]});
            if tp == 1 {
                if r.is_ok() && reported.insert("ack-of-other-topic-accepted") { rp_core::report(true, "ack-of-other-topic-accepted", inp.clone(), json!({"result": "Ok"}), &obl); }
                if after != before && reported.insert("ack-of-other-topic-changes-cursor") { rp_core::report(true, "ack-of-other-topic-changes-cursor", inp.clone(), json!({"before": before.values().collect::<Vec<_>>(), "after": after.values().collect::<Vec<_>>()}), &obl); }
            } else {
                let k = (sk.verifying_key(), LogId::from_topic(t));
                let e = want.entry(k).or_insert(seq); if *e < seq { *e = seq; }
                if r.is_err() && reported.insert("valid-ack-rejected") { rp_core::report(true, "valid-ack-rejected", inp.clone(), json!({"result": "Err"}), &obl); }
                if before.iter().any(|(k, h)| after.get(k).map(|x| x < h).unwrap_or(true)) && reported.insert("persisted-cursor-moved-backwards") {
                    rp_core::report(true, "persisted-cursor-moved-backwards", inp.clone(), json!({"before": before.values().collect::<Vec<_>>(), "after": after.values().collect::<Vec<_>>()}), &obl);
                }
                if after != want && reported.insert("persisted-cursor-is-not-pointwise-max") {
                    rp_core::report(true, "persisted-cursor-is-not-pointwise-max", inp.clone(), json!({"after": after.values().collect::<Vec<_>>(), "expected": want.values().collect::<Vec<_>>()}), &obl);
                }
            }
        }
    }
    println!("{}", json!({"summary": true, "evaluations": n, "distinct_nontrivial": n, "exhaustive": true,
        "rule": "all 720 orders of 6 acks (2 authors, own topic + one foreign-topic ack, duplicate and lower heights) through the real Acked on SqliteStore::temporary(); persisted cursor compared with the pointwise maximum after every ack",
        "bound": "6 acks, 2 authors, 2 topics", "violating_classes": reported}));
}
