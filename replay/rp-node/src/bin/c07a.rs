//! C07 replay (persisted-cursor clause): the real Acked::ack / Acked::cursor (hook: `pub use acked::Acked`) on a real
//! SQLite store. Acks for several authors in every order of a small multiset of heights: the persisted cursor must be
//! the pointwise maximum after every step (never backwards); an ack for an operation of another topic must be rejected
//! and leave the persisted cursor unchanged.
use p2panda::operation::{Extensions, LogId};
use p2panda::streams::Acked;
use p2panda_core::{Header, SigningKey, Topic, VerifyingKey};
use p2panda_store::SqliteStore;
use serde_json::json;
use std::collections::BTreeMap;

fn header(sk: &SigningKey, topic: Topic, seq: u32) -> Header<Extensions> {
    let mut h = Header::<Extensions> { verifying_key: sk.verifying_key(), version: 1, signature: None, payload_size: 0, payload_hash: None,
        seq_num: seq, backlink: None, extensions: Extensions::from_topic(topic) };
    h.sign(sk);
    h
}
fn perms(n: usize) -> Vec<Vec<usize>> {
    if n == 0 { return vec![vec![]]; }
    let mut out = vec![];
    for p in perms(n - 1) { for i in 0..=p.len() { let mut q = p.clone(); q.insert(i, n - 1); out.push(q); } }
    out
}
async fn state(acked: &Acked) -> BTreeMap<(VerifyingKey, LogId), u32> {
    let c = acked.cursor().await.unwrap();
    c.state().iter().flat_map(|(a, m)| m.iter().map(move |(l, h)| ((*a, *l), *h))).collect()
}

#[tokio::main]
async fn main() {
    let _a = rp_core::args();
    let mut n = 0u64;
    let mut reported = std::collections::BTreeSet::new();
    let obl = ["acked::Acked::ack.ensures#ok_advances_to_pointwise_max", "acked::Acked::ack.ensures#never_moves_backwards", "acked::Acked::ack.ensures#other_topic_rejected_cursor_unchanged",
        "acked::Acked::ack.ensures#error_leaves_persisted_cursor_unchanged", "acked::Acked::ack.ensures#only_own_cursor_changes", "acked::Acked::ack.safety", "acked::Acked::cursor.ensures#persisted_or_empty",
        "acked::Cursor::advance.ensures#pointwise_max_at_key", "acked::Cursor::advance.ensures#others_unchanged"];
    let (alice, bob) = (SigningKey::generate(), SigningKey::generate());
    let (topic, other) = (Topic::random(), Topic::random());
    // acks: (author index, topic index, seq)
    let acks: Vec<(usize, usize, u32)> = vec![(0, 0, 3), (0, 0, 1), (1, 0, 2), (0, 1, 9), (1, 0, 2), (0, 0, 0)];
    for p in perms(acks.len()) {
        let store = SqliteStore::temporary().await;
        let acked = Acked::new(store.clone(), topic);
        let mut want: BTreeMap<(VerifyingKey, LogId), u32> = BTreeMap::new();
        for i in &p {
            let (who, tp, seq) = acks[*i];
            let sk = if who == 0 { &alice } else { &bob };
            let t = if tp == 0 { topic } else { other };
            let before = state(&acked).await;
            let r = acked.ack(header(sk, t, seq)).await;
            let after = state(&acked).await;
            n += 1;
            let inp = json!({"acks(author,topic(0=own),seq)": p.iter().map(|i| acks[*i]).collect::<Vec<_>>(), "at": acks[*i]});
            if tp == 1 {
                if r.is_ok() && reported.insert("ack-of-other-topic-accepted") { rp_core::report(true, "ack-of-other-topic-accepted", inp.clone(), json!({"result": "Ok"}), &obl); }
                if after != before && reported.insert("ack-of-other-topic-changes-cursor") { rp_core::report(true, "ack-of-other-topic-changes-cursor", inp.clone(), json!({"before": before.values().collect::<Vec<_>>(), "after": after.values().collect::<Vec<_>>()}), &obl); }
            } else {
                let k = (sk.verifying_key(), LogId::from_topic(t));
                let e = want.entry(k).or_insert(seq); if *e < seq { *e = seq; }
                if r.is_err() && reported.insert("valid-ack-rejected") { rp_core::report(true, "valid-ack-rejected", inp.clone(), json!({"result": "Err"}), &obl); }
                if before.iter().any(|(k, h)| after.get(k).map(|x| x < h).unwrap_or(true)) && reported.insert("persisted-cursor-moved-backwards") {
                    rp_core::report(true, "persisted-cursor-moved-backwards", inp.clone(), json!({"before": before.values().collect::<Vec<_>>(), "after": after.values().collect::<Vec<_>>()}), &obl);
                }
                if after != want && reported.insert("persisted-cursor-is-not-pointwise-max") {
                    rp_core::report(true, "persisted-cursor-is-not-pointwise-max", inp.clone(), json!({"after": after.values().collect::<Vec<_>>(), "expected": want.values().collect::<Vec<_>>()}), &obl);
                }
            }
        }
    }
    // two stream handles on the same topic (each `Node::stream` call builds its own Acked over the same persisted cursor):
    // acks alternate between the handles; the persisted cursor must still be the pointwise maximum of everything acked
    for p in perms(5) {
        let seqs = [0u32, 1, 2, 3, 4];
        let store = SqliteStore::temporary().await;
        let handles = [Acked::new(store.clone(), topic), Acked::new(store.clone(), topic)];
        let reader = Acked::new(store.clone(), topic);
        let mut max = None;
        for (k, i) in p.iter().enumerate() {
            for which in [k % 2, (k / 2) % 2] {
                let _ = handles[which].ack(header(&alice, topic, seqs[*i])).await;
                n += 1;
                max = Some(max.map_or(seqs[*i], |m: u32| m.max(seqs[*i])));
                let got = state(&reader).await.get(&(alice.verifying_key(), LogId::from_topic(topic))).copied();
                if got != max && reported.insert("persisted-cursor-moved-backwards") {
                    rp_core::report(true, "persisted-cursor-moved-backwards", json!({"two_handles_on_one_topic": true, "acked_seqs_in_order": p.iter().take(k + 1).map(|i| seqs[*i]).collect::<Vec<_>>(), "handle_of_this_ack": which}),
                        json!({"persisted_height": got, "maximum_acked": max}), &obl);
                }
            }
        }
    }
    // a persisted cursor that already tracks a log of ANOTHER topic (e.g. handed in by the application): an ack for an
    // operation of that other topic must still be rejected and leave the cursor unchanged
    {
        use p2panda_store::{Transaction, cursors::CursorStore};
        let store = SqliteStore::temporary().await;
        let acked = Acked::new(store.clone(), topic);
        let mut c = acked.cursor().await.unwrap();
        c.advance(alice.verifying_key(), LogId::from_topic(topic), 1);
        c.advance(alice.verifying_key(), LogId::from_topic(other), 2);
        let permit = store.begin().await.unwrap();
        CursorStore::<VerifyingKey, LogId>::set_cursor(&store, &c).await.unwrap();
        store.commit(permit).await.unwrap();
        let before = state(&acked).await;
        let r = acked.ack(header(&alice, other, 7)).await;
        let after = state(&acked).await;
        n += 1;
        let inp = json!({"persisted_cursor_tracks": ["own topic log at 1", "other topic's log at 2"], "ack": "operation 7 of the other topic"});
        if r.is_ok() && reported.insert("ack-of-other-topic-accepted") { rp_core::report(true, "ack-of-other-topic-accepted", inp.clone(), json!({"result": "Ok"}), &obl); }
        if after != before && reported.insert("ack-of-other-topic-changes-cursor") { rp_core::report(true, "ack-of-other-topic-changes-cursor", inp, json!({"before": before.values().collect::<Vec<_>>(), "after": after.values().collect::<Vec<_>>()}), &obl); }
    }
    println!("{}", json!({"summary": true, "evaluations": n, "distinct_nontrivial": n, "exhaustive": true,
        "rule": "two handles on one topic acking alternately (all orders of 5 heights); a stored cursor that tracks a foreign log; all 720 orders of 6 acks (2 authors, own topic + one foreign-topic ack, duplicate and lower heights) through the real Acked on SqliteStore::temporary(); persisted cursor compared with the pointwise maximum after every ack",
        "bound": "6 acks, 2 authors, 2 topics", "violating_classes": reported}));
}
