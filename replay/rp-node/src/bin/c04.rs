//! C04 replay: the real system-level pipeline (hook verif_pipeline_process: ingest -> log-prune) over a real
//! SQLite store. Entries may only be deleted by a prune-flagged operation that passed validation, and only
//! entries of its own (author, log) below its sequence number.
use p2panda::operation::LogId;
use p2panda_core::{Body, Hash, Header, Operation, SigningKey, Topic, VerifyingKey};
use p2panda_store::SqliteStore;
use p2panda_store::logs::LogStore;
use serde_json::json;

fn op(sk: &SigningKey, claimed: VerifyingKey, seq: u32, backlink: Option<Hash>, body: &[u8]) -> Operation<()> {
    let body = Body::new(body);
    let mut header = Header::<()> { verifying_key: sk.verifying_key(), version: 1, signature: None, payload_size: body.size(),
        payload_hash: if body.size() == 0 { None } else { Some(body.hash()) }, seq_num: seq, backlink, extensions: () };
    header.sign(sk);
    header.verifying_key = claimed; // == own key for honest operations; another author's key for forgeries
    Operation { hash: header.hash(), header, body: if body.size() == 0 { None } else { Some(body) } }
}

async fn seqs(store: &SqliteStore, a: &VerifyingKey, l: &LogId) -> Vec<u32> {
    LogStore::<Operation<()>, VerifyingKey, LogId, u32, Hash>::get_log_entries(store, a, l, None, None).await.unwrap()
        .map(|v| v.into_iter().map(|(o, _)| o.header.seq_num).collect()).unwrap_or_default()
}

#[tokio::main]
async fn main() {
    let _a = rp_core::args();
    let mut n = 0u64;
    let mut reported = std::collections::BTreeSet::new();
    let alice = SigningKey::generate();
    let mallory = SigningKey::generate();
    let topic = Topic::random();
    let other_topic = Topic::random();
    let log = LogId::from_topic(topic);
    let other_log = LogId::from_topic(other_topic);
    // Alice's honest log 0..5 in `log` and 0..2 in `other_log`
    let mut chain = vec![];
    for i in 0..6u32 { let bl = chain.last().map(|o: &Operation<()>| o.hash); chain.push(op(&alice, alice.verifying_key(), i, bl, format!("a{i}").as_bytes())); }
    let mut chain2 = vec![];
    for i in 0..3u32 { let bl = chain2.last().map(|o: &Operation<()>| o.hash); chain2.push(op(&alice, alice.verifying_key(), i, bl, format!("b{i}").as_bytes())); }
    // attacks: operations that FAIL validation but carry the prune flag
    let attacks: Vec<(&str, Operation<()>)> = vec![
        ("forged signature claiming Alice, seq 4", op(&mallory, alice.verifying_key(), 4, Some(Hash::digest(b"x")), b"forged")),
        ("forged signature claiming Alice, seq 100", op(&mallory, alice.verifying_key(), 100, Some(Hash::digest(b"x")), b"forged")),
        ("Alice's own operation with corrupted body, seq 6", { let mut o = op(&alice, alice.verifying_key(), 6, Some(chain[5].hash), b"real"); o.body = Some(Body::new(b"fake")); o }),
        ("Alice's own operation with inconsistent header (backlink at seq 0)", op(&alice, alice.verifying_key(), 0, Some(Hash::digest(b"x")), b"bad")),
        ("stored operation of Alice re-sent with its id, key and signature kept but seq_num rewritten to 100 (signature no longer matches)", { let mut o = chain[2].clone(); o.header.seq_num = 100; o }),
        ("stored operation of Alice re-sent with its id kept but another body and payload hash", { let mut o = chain[3].clone(); let b = Body::new(b"other"); o.header.payload_hash = Some(b.hash()); o.header.payload_size = b.size(); o.body = Some(b); o }),
        // forgeries that wear the id of an entry Alice's log already holds (the `hash` field of an Operation is chosen by the
        // sender; it is not covered by the signature check of the header)
        ("forged signature claiming Alice, seq 6 (head + 1), wrapped under the id of Alice's current head", { let mut o = op(&mallory, alice.verifying_key(), 6, Some(chain[5].hash), b"forged"); o.hash = chain[5].hash; o }),
        ("forged signature claiming Alice, seq 100, wrapped under the id of Alice's current head", { let mut o = op(&mallory, alice.verifying_key(), 100, Some(chain[5].hash), b"forged"); o.hash = chain[5].hash; o }),
        ("forged signature claiming Alice, seq 3, wrapped under the id of Alice's stored entry 3", { let mut o = op(&mallory, alice.verifying_key(), 3, Some(chain[2].hash), b"forged"); o.hash = chain[3].hash; o }),
    ];
    for (label, attack) in &attacks {
        let store = SqliteStore::temporary().await;
        let mut inputs: Vec<(Operation<()>, LogId, Topic, bool)> = chain.iter().map(|o| (o.clone(), log.clone(), topic, false)).collect();
        inputs.extend(chain2.iter().map(|o| (o.clone(), other_log.clone(), other_topic, false)));
        let r = p2panda::processor::verif_pipeline_process(store.clone(), inputs).await;
        assert!(r.iter().all(|x| x.0), "honest log ingested");
        let before = (seqs(&store, &alice.verifying_key(), &log).await, seqs(&store, &alice.verifying_key(), &other_log).await);
        let r = p2panda::processor::verif_pipeline_process(store.clone(), vec![(attack.clone(), log.clone(), topic, true)]).await;
        n += 1;
        let after = (seqs(&store, &alice.verifying_key(), &log).await, seqs(&store, &alice.verifying_key(), &other_log).await);
        if after != before {
            let class = "invalid-prune-flagged-operation-deletes-entries";
            if reported.insert(class) {
                rp_core::report(true, class, json!({"stored": "Alice log seq 0..5", "delivered_with_prune_flag": label}),
                    json!({"pipeline_result(completed,failed)": r, "log_before": before.0, "log_after": after.0}),
                    &["prune_pipeline::pipeline_step.safety", "prune_pipeline::LogPrune::process.safety"]);
            }
        }
    }
    // scope: a VALID prune-flagged operation deletes exactly its own (author, log) entries below its seq
    {
        let store = SqliteStore::temporary().await;
        let mut inputs: Vec<(Operation<()>, LogId, Topic, bool)> = chain.iter().take(4).map(|o| (o.clone(), log.clone(), topic, false)).collect();
        inputs.extend(chain2.iter().map(|o| (o.clone(), other_log.clone(), other_topic, false)));
        inputs.push((chain[4].clone(), log.clone(), topic, true));
        let _ = p2panda::processor::verif_pipeline_process(store.clone(), inputs).await;
        n += 1;
        let after = (seqs(&store, &alice.verifying_key(), &log).await, seqs(&store, &alice.verifying_key(), &other_log).await);
        if after.0 != vec![4] || after.1 != vec![0, 1, 2] {
            if reported.insert("valid-prune-wrong-scope") {
                rp_core::report(true, "valid-prune-wrong-scope", json!({"prune point": "Alice seq 4"}), json!({"log": after.0, "other_log": after.1}), &["prune_pipeline::Event::new.ensures#prune_scope_is_own_log"]);
            }
        }
    }
    println!("{}", json!({"summary": true, "evaluations": n, "distinct_nontrivial": n, "exhaustive": false,
        "rule": "9 invalid prune-flagged operations (forged signature x2, corrupted body, inconsistent header, re-sent stored entries with rewritten fields x2, forgeries wrapped under the id of a stored entry x3) against a stored 6-entry log + 1 valid prune; oracle = log contents unchanged by invalid operations / exact scope for the valid one",
        "bound": "10 scenarios", "samples": [{"attack": "forged signature claiming Alice, seq 4"}], "violating_classes": reported}));
}
