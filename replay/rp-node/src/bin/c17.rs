//! C17 replay: two real p2panda nodes on a shared topic (public API only). The publisher node sends a message
//! that is invalid for the subscriber's message type (validly signed u64, the subscriber expects String) followed
//! by a valid String message. The subscriber is polled BY HAND with a counting waker after both messages had time
//! to arrive: a poll that returns Pending although a valid message is queued, without having scheduled a wake-up,
//! is a stall (the task would sleep forever if no further message arrives).
use std::sync::Arc;
use std::sync::atomic::{AtomicUsize, Ordering};
use std::task::{Context, Poll, Wake, Waker};
use std::time::Duration;

use futures_util::Stream;
use p2panda_core::Topic;
use serde_json::json;

struct CountingWaker(AtomicUsize);
impl Wake for CountingWaker {
    fn wake(self: Arc<Self>) { self.0.fetch_add(1, Ordering::SeqCst); }
    fn wake_by_ref(self: &Arc<Self>) { self.0.fetch_add(1, Ordering::SeqCst); }
}

#[tokio::main]
async fn main() {
    let _a = rp_core::args();
    let topic = Topic::random();
    let panda = p2panda::spawn().await.unwrap();
    let icebear = p2panda::spawn().await.unwrap();

    let (_ice_tx, ice_rx) = icebear.ephemeral_stream::<String>(topic).await.unwrap();
    let (bad_tx, _bad_rx) = panda.ephemeral_stream::<u64>(topic).await.unwrap();
    let (good_tx, _good_rx) = panda.ephemeral_stream::<String>(topic).await.unwrap();
    let mut ice_rx = Box::pin(ice_rx);

    // warm-up: make sure the overlay is connected (a valid message gets through), polled normally
    let mut connected = false;
    for _ in 0..40 {
        good_tx.publish("warm-up".to_string()).await.unwrap();
        if let Ok(Some(_)) = tokio::time::timeout(Duration::from_millis(500), futures_util::StreamExt::next(&mut ice_rx)).await { connected = true; break; }
    }
    let mut reported = std::collections::BTreeSet::new();
    let mut n = 0u64;
    if connected {
        // drain leftovers of the warm-up
        while let Ok(Some(_)) = tokio::time::timeout(Duration::from_millis(300), futures_util::StreamExt::next(&mut ice_rx)).await {}
        for (round, burst) in [2u64, 2, 48].into_iter().enumerate() {
            for i in 0..burst {
                bad_tx.publish(1000 * round as u64 + i).await.unwrap();
            }
            good_tx.publish(format!("valid {round}")).await.unwrap();
            tokio::time::sleep(Duration::from_millis(1500)).await; // let all of them arrive; nobody polls meanwhile
            let cw = Arc::new(CountingWaker(AtomicUsize::new(0)));
            let waker = Waker::from(cw.clone());
            let mut cx = Context::from_waker(&waker);
            let mut polls = vec![];
            let mut got = None;
            for _ in 0..6 {
                n += 1;
                match ice_rx.as_mut().poll_next(&mut cx) {
                    Poll::Ready(Some(m)) => { polls.push("Ready(Some)"); got = Some(m.body().clone()); break; }
                    Poll::Ready(None) => { polls.push("Ready(None)"); break; }
                    Poll::Pending => { polls.push("Pending"); }
                }
            }
            let wakes = cw.0.load(Ordering::SeqCst);
            // stall: a Pending before the valid message was yielded, with no wake-up scheduled by then
            if polls.first() == Some(&"Pending") && got.is_some() && wakes == 0 {
                if reported.insert("pending-without-wakeup-while-valid-message-queued") {
                    rp_core::report(true, "pending-without-wakeup-while-valid-message-queued",
                        json!({"published": format!("{burst} x u64 (undecodable as String), then one valid String"), "invalid_burst": burst, "subscriber_polled_after_ms": 1500}),
                        json!({"manual_polls": polls, "wake_ups_scheduled": wakes, "message_finally_yielded": got}),
                        &["ephemeral::Stream@EphemeralStreamSubscription::poll_next.ensures#pending_only_with_wakeup"]);
                }
            }
        }
    }
    println!("{}", json!({"summary": true, "evaluations": n.max(1), "distinct_nontrivial": if connected { 3 } else { 2 }, "exhaustive": false, "connected": connected,
        "rule": "3 rounds of [invalid x burst, valid] (burst = 2, 2, 48) published between two real nodes, subscriber polled by hand with a counting waker after the messages arrived; a round is non-trivial when the valid message was eventually yielded",
        "bound": "3 rounds, 2 / 2 / 48 invalid messages before each valid one", "samples": [{"published": ["u64", "u64", "String"]}], "violating_classes": reported}));
    std::process::exit(0);
}
