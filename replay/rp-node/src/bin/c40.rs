//! C40 replay: the real sync-metrics Aggregator (hook verif_sync_metrics_totals) against
//! "totals == sum over sessions of the bytes each session transferred, each byte once;
//!  running == started - ended": a fixed family of lifecycle-conforming event sequences.
use p2panda_net::NodeId;
use p2panda_sync::FromSync;
use p2panda_sync::protocols::{Metrics, TopicLogSyncEvent as Ev};
use serde_json::json;

fn fs(session_id: u64, event: Ev<()>) -> FromSync<Ev<()>> { FromSync { session_id, remote: NodeId::default(), event } }
fn m(ss: u32, rs: u32, sl: u32, rl: u32) -> Metrics {
    Metrics { sent_sync_bytes: ss, received_sync_bytes: rs, sent_live_bytes: sl, received_live_bytes: rl, ..Default::default() }
}

/// one session: (sync sent, sync received, live sent, live received, how it ends)
#[derive(Clone, Copy, Debug)]
enum End { FinishedAfterSync, FinishedAfterLive, FailedDuringSync, FailedDuringLive }

fn session(id: u64, ss: u32, rs: u32, sl: u32, rl: u32, end: End) -> (Vec<FromSync<Ev<()>>>, (u32, u32)) {
    let mut v = vec![fs(id, Ev::SessionStarted), fs(id, Ev::SyncStarted { metrics: m(0, 0, 0, 0) })];
    match end {
        End::FailedDuringSync => {
            // the last report before the failure is the last known transfer
            v.push(fs(id, Ev::SyncStarted { metrics: m(ss, rs, 0, 0) }));
            v.push(fs(id, Ev::Failed { error: "x".into() }));
            (v, (ss, rs))
        }
        End::FinishedAfterSync => {
            v.push(fs(id, Ev::SyncFinished { metrics: m(ss, rs, 0, 0) }));
            v.push(fs(id, Ev::SessionFinished { metrics: m(ss, rs, 0, 0) }));
            (v, (ss, rs))
        }
        End::FinishedAfterLive => {
            v.push(fs(id, Ev::SyncFinished { metrics: m(ss, rs, 0, 0) }));
            v.push(fs(id, Ev::LiveModeStarted));
            v.push(fs(id, Ev::SessionFinished { metrics: m(ss, rs, sl, rl) }));
            (v, (ss + sl, rs + rl))
        }
        End::FailedDuringLive => {
            v.push(fs(id, Ev::SyncFinished { metrics: m(ss, rs, 0, 0) }));
            v.push(fs(id, Ev::LiveModeStarted));
            // an operation received in live mode reports the live bytes transferred so far; then the session fails
            let sk = p2panda_core::SigningKey::generate();
            let mut header = p2panda_core::Header::<()> { verifying_key: sk.verifying_key(), version: 1, signature: None, payload_size: 0, payload_hash: None, seq_num: 0, backlink: None, extensions: () };
            header.sign(&sk);
            let op = p2panda_core::Operation { hash: header.hash(), header, body: None };
            v.push(fs(id, Ev::OperationReceived { operation: Box::new(op), metrics: m(ss, rs, sl, rl) }));
            v.push(fs(id, Ev::Failed { error: "x".into() }));
            (v, (ss + sl, rs + rl))
        }
    }
}

fn main() {
    let _a = rp_core::args();
    let mut n = 0u64;
    let mut reported = std::collections::BTreeSet::new();
    let ends = [End::FinishedAfterSync, End::FinishedAfterLive, End::FailedDuringSync, End::FailedDuringLive];
    for e1 in ends {
        for e2 in ends {
            for (ss, rs, sl, rl) in [(100u32, 40u32, 20u32, 7u32), (0, 0, 5, 5), (1, 0, 0, 0)] {
                let (a, ea) = session(1, ss, rs, sl, rl, e1);
                // sequential (also with the SAME session id used again by the second session: ids restart at 0 when the topic
                // manager is restarted) and interleaved
                for (interleave, id2) in [(false, 2u64), (true, 2), (false, 1)] {
                let (b, eb) = session(id2, ss.saturating_sub(3), rs + 1, sl, rl + 2, e2);
                    let mut evs = vec![];
                    if interleave {
                        let (mut i, mut j) = (0, 0);
                        while i < a.len() || j < b.len() {
                            if i < a.len() { evs.push(a[i].clone()); i += 1; }
                            if j < b.len() { evs.push(b[j].clone()); j += 1; }
                        }
                    } else { evs.extend(a.clone()); evs.extend(b.clone()); }
                    n += 1;
                    let out = p2panda::streams::verif_sync_metrics_totals(evs);
                    let (running, sent, recv) = *out.last().unwrap();
                    let want = (0u32, ea.0 + eb.0, ea.1 + eb.1);
                    if (running, sent, recv) != want {
                        let class = match (e1, e2) {
                            (End::FinishedAfterSync | End::FinishedAfterLive, _) | (_, End::FinishedAfterSync | End::FinishedAfterLive) if sent > want.1 || recv > want.2 => "sync-bytes-counted-again-at-session-finished",
                            _ if sent < want.1 || recv < want.2 => "bytes-of-failed-session-not-counted",
                            _ => "other",
                        };
                        if reported.insert(class) {
                            rp_core::report(true, class, json!({"session1": format!("{:?} sync=({ss},{rs}) live=({sl},{rl})", e1), "session2": format!("{:?} (session id {id2})", e2), "interleaved": interleave}),
                                json!({"(running,sent_total,received_total)": [running, sent, recv], "expected": [want.0, want.1, want.2]}),
                                &["sync_metrics::Aggregator::process.ensures#each_byte_counted_once", "sync_metrics::Aggregator::process.safety"]);
                        }
                    }
                }
            }
        }
    }
    println!("{}", json!({"summary": true, "evaluations": n, "distinct_nontrivial": n, "exhaustive": false,
        "rule": "two sessions x 4 endings each x 3 byte profiles x {sequential, interleaved}; every case is lifecycle-conforming and transfers bytes (non-trivial); oracle = sum over sessions of last reported bytes",
        "bound": "2 sessions, 4 endings, 3 byte profiles", "samples": [{"session1": "FinishedAfterLive sync=(100,40) live=(20,7)", "session2": "FailedDuringSync", "expected_totals": [223, 88]}],
        "violating_classes": reported}));
}
