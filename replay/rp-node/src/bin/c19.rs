//! C19 BOUNDED stand-in: two real LogSync sessions (p2panda-sync test_utils: Peer + run_protocol over in-memory channels,
//! real SQLite stores) between replicas with arbitrary logs, heights and pruned prefixes. Each side must receive exactly the
//! other side's stored operations of the shared logs with a sequence number above its own height — each once, in log order —
//! and nothing else; after applying them both replicas have the same heights. Random scenarios from a fixed seed.
//! Labelled bounded; never counted as proved (LogSync::run is a select!-based async state machine out of the verifier's reach).
use p2panda_core::{Body, Hash, Operation, VerifyingKey};
use p2panda_store::logs::LogStore;
use p2panda_store::operations::OperationStore;
use p2panda_store::{SqliteStore, Transaction};
use p2panda_sync::protocols::{LogSyncEvent, Logs};
use p2panda_sync::test_utils::{Peer, TestExtensions, TestLogId, run_protocol};
use serde_json::json;
use std::collections::BTreeMap;
use std::time::Duration;

type Op = Operation<TestExtensions>;
struct Lcg(u64);
impl Lcg { fn next(&mut self, n: usize) -> usize { self.0 = self.0.wrapping_mul(6364136223846793005).wrapping_add(1442695040888963407); ((self.0 >> 33) as usize) % n.max(1) } }

async fn entries(store: &SqliteStore, a: &VerifyingKey, l: &TestLogId) -> Vec<Op> {
    LogStore::<Op, VerifyingKey, TestLogId, u32, Hash>::get_log_entries(store, a, l, None, None).await.unwrap().map(|v| v.into_iter().map(|(o, _)| o).collect()).unwrap_or_default()
}
async fn insert(store: &SqliteStore, o: &Op, l: &TestLogId) {
    let permit = store.begin().await.unwrap();
    OperationStore::<Op, Hash>::insert_operation(store, &o.hash, o, l).await.unwrap();
    store.commit(permit).await.unwrap();
}

#[tokio::main]
async fn main() {
    let a = rp_core::args();
    let rounds = if a.tier == "thorough" { 1000 } else { 150 };
    let mut rng = Lcg(0xc19 + a.seed);
    let mut n = 0u64;
    let mut nontrivial = 0u64;
    let mut reported = std::collections::BTreeSet::new();
    for round in 0..rounds {
        let mut pa = Peer::new(2 * round as u64).await;
        let mut pb = Peer::new(2 * round as u64 + 1).await;
        let log_ids: [TestLogId; 2] = [0, 1];
        // each peer writes 0..=4 operations into each of its two logs
        let mut written: BTreeMap<(VerifyingKey, TestLogId), Vec<Op>> = BTreeMap::new();
        for (who, p) in [(0, &mut pa), (1, &mut pb)] {
            for l in log_ids {
                let k = rng.next(5);
                for i in 0..k { p.create_operation(&Body::new(format!("{who} {l} {i}").as_bytes()), l).await; }
                written.insert((p.id(), l), entries(&p.store, &p.id(), &l).await);
            }
        }
        // each peer already holds some operations of the other: a contiguous run [from, to) of the other's log (from > 0 = the
        // prefix was pruned away on this side)
        let ida = pa.id(); let idb = pb.id();
        for (holder, author) in [(&pa, idb), (&pb, ida)] {
            for l in log_ids {
                let ops = &written[&(author, l)];
                if ops.is_empty() { continue; }
                let to = rng.next(ops.len() + 1);
                let from = if to > 0 { rng.next(to) * rng.next(2) } else { 0 };
                for o in &ops[from..to] { insert(&holder.store, o, &l).await; }
            }
        }
        // a third author C whose logs both replicas hold only as copies: different contiguous runs, inserted in a SHUFFLED order
        // (as when operations arrive through live mode before a sync fills the gap), some with their payload deleted
        let mut pc = Peer::new(1_000_000 + round as u64).await;
        let idc = pc.id();
        for l in log_ids {
            let k = 2 + rng.next(4);
            for i in 0..k { pc.create_operation(&Body::new(format!("c {l} {i}").as_bytes()), l).await; }
            let ops = entries(&pc.store, &idc, &l).await;
            written.insert((idc, l), ops.clone());
            for holder in [&pa, &pb] {
                let to = rng.next(ops.len() + 1);
                let from = if to > 0 { rng.next(to) } else { 0 };
                let mut run: Vec<&Op> = ops[from..to].iter().collect();
                for i in (1..run.len()).rev() { let j = rng.next(i + 1); run.swap(i, j); }
                for o in run { insert(&holder.store, o, &l).await; }
                if to > from && rng.next(3) == 0 { let victim = &ops[from + rng.next(to - from)]; let _ = OperationStore::<Op, Hash>::delete_operation_payload(&holder.store, &victim.hash).await; }
            }
        }
        // a pruned prefix of an own log on one side
        if rng.next(3) == 0 { let l = log_ids[rng.next(2)]; let have = entries(&pa.store, &ida, &l).await; if have.len() > 1 { let until = have[have.len() - 1].header.seq_num; let _ = LogStore::<Op, VerifyingKey, TestLogId, u32, Hash>::prune_entries(&pa.store, &ida, &l, &until).await; } }
        // shared logs: sometimes only a subset
        let mut logs: Logs<TestLogId> = Logs::default();
        let shared: Vec<TestLogId> = if rng.next(4) == 0 { vec![0] } else { vec![0, 1] };
        logs.insert(ida, shared.clone()); logs.insert(idb, shared.clone()); logs.insert(idc, shared.clone());
        // model
        let mut want: [Vec<Hash>; 2] = [vec![], vec![]];
        let mut stored: [BTreeMap<(VerifyingKey, TestLogId), Vec<Op>>; 2] = [BTreeMap::new(), BTreeMap::new()];
        for (i, p) in [(0, &pa), (1, &pb)] { for au in [ida, idb, idc] { for l in &shared { stored[i].insert((au, *l), entries(&p.store, &au, l).await); } } }
        for me in 0..2 { let other = 1 - me; for au in [ida, idb, idc] { for l in &shared {
            let mine = stored[me][&(au, *l)].iter().map(|o| o.header.seq_num).max();
            for o in &stored[other][&(au, *l)] { if mine.map(|h| o.header.seq_num > h).unwrap_or(true) { want[me].push(o.hash); } }
        } } }
        let (sa, mut ea) = pa.log_sync_protocol(&logs);
        let (sb, mut eb) = pb.log_sync_protocol(&logs);
        let r = tokio::time::timeout(Duration::from_secs(180), run_protocol(sa, sb)).await;
        n += 1;
        if want[0].len() + want[1].len() > 0 { nontrivial += 1; }
        let inp = json!({"round": round, "shared_logs": shared, "stored(seq numbers per (author,log))": stored.iter().map(|m| m.iter().map(|((au, l), v)| json!({"author": if *au == ida { "A" } else if *au == idb { "B" } else { "C" }, "log": l, "seqs": v.iter().map(|o| o.header.seq_num).collect::<Vec<_>>()})).collect::<Vec<_>>()).collect::<Vec<_>>()});
        let mut class = None;
        let mut got: [Vec<Hash>; 2] = [vec![], vec![]];
        let mut got_body: [Vec<(Hash, Option<Vec<u8>>)>; 2] = [vec![], vec![]];
        match r {
            Err(_) => class = Some("sync-session-does-not-complete"),
            Ok(Err(_)) => class = Some("sync-session-fails-between-honest-peers"),
            Ok(Ok(_)) => {
                for (i, rx) in [(0, &mut ea), (1, &mut eb)] { while let Ok(ev) = rx.try_recv() { if let LogSyncEvent::OperationReceived { operation, .. } = ev { got[i].push(operation.hash); got_body[i].push((operation.hash, operation.body.as_ref().map(|b| b.to_bytes()))); } } }
                for i in 0..2 {
                    let mut g = got[i].clone(); g.sort(); let mut w = want[i].clone(); w.sort();
                    if g.windows(2).any(|x| x[0] == x[1]) { class = Some("operation-delivered-twice"); }
                    else if g != w { class = Some(if g.iter().any(|h| !w.contains(h)) { "operation-delivered-that-was-not-missing" } else { "missing-operation-not-delivered" }); }
                    else if got_body[i].iter().any(|(h, b)| stored[1 - i].values().flatten().find(|o| o.hash == *h).map(|o| o.body.as_ref().map(|x| x.to_bytes()) != *b).unwrap_or(false)) { class = Some("operation-delivered-with-a-body-that-is-not-the-stored-one"); }
                    else {
                        // log order: per (author, log) increasing seq
                        let all: Vec<&Op> = stored[1 - i].values().flatten().collect();
                        let mut last: BTreeMap<(VerifyingKey, Hash), u32> = BTreeMap::new();
                        let _ = &mut last;
                        let mut per: BTreeMap<VerifyingKey, Vec<(TestLogId, u32)>> = BTreeMap::new();
                        for h in &got[i] { if let Some(o) = all.iter().find(|o| o.hash == *h) { per.entry(o.header.verifying_key).or_default().push((o.header.extensions, o.header.seq_num)); } }
                        for v in per.values() { for l in &shared { let s: Vec<u32> = v.iter().filter(|(ll, _)| ll == l).map(|(_, s)| *s).collect(); if s.windows(2).any(|x| x[0] >= x[1]) { class = Some("operations-delivered-out-of-log-order"); } } }
                    }
                }
            }
        }
        if let Some(c) = class { if reported.insert(c) {
            rp_core::report(true, c, inp, json!({"received_by_A": got[0].len(), "expected_by_A": want[0].len(), "received_by_B": got[1].len(), "expected_by_B": want[1].len()}),
                &["logs::compare.ensures#exact_diff"]);
        } }
    }
    println!("{}", json!({"summary": true, "function": "p2panda-sync/src/protocols/log_sync.rs LogSync::run (both parties) + get_log_heights + the SQL log store, through Peer/run_protocol of p2panda-sync's test_utils",
        "evaluations": n, "distinct_nontrivial": nontrivial, "exhaustive": false,
        "rule": "random scenarios (fixed seed): 2 replicas, 2 authors x 2 logs with 0..4 operations, each replica holding a random contiguous run of the other's logs (possibly with a pruned prefix), optionally a pruned own log and a restricted set of shared logs; both real sessions run to completion; received operations compared with: the other's stored operations of the shared logs above the own height",
        "bound": format!("{rounds} scenarios, <= 4 operations per log"), "violating_classes": reported}));
}
