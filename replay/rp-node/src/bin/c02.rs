//! C02 replay (determinism of the Node API extensions / header encoding): equal values must encode to identical
//! bytes. The same CBOR bytes of a Causal-variant Extensions value with k `previous` hashes are decoded several times
//! (every decode builds a fresh HashSet with its own iteration order); all decoded values are equal, so all of them —
//! and the headers carrying them — must re-encode to the same bytes, give the same operation id and keep verifying.
use p2panda::operation::{Extensions, LogId};
use p2panda_core::cbor::{decode_cbor, encode_cbor};
use p2panda_core::{Hash, Header, SigningKey, Timestamp, Topic};
use serde_json::json;

fn main() {
    let a = rp_core::args();
    let mut n = 0u64;
    let mut reported = std::collections::BTreeSet::new();
    let obl = ["ext_serde::Serialize@Extensions::serialize.ensures#causal_encoding_is_a_function_of_the_value", "ext_serde::Serialize@Extensions::serialize.ensures#basic_encoding_is_a_function_of_the_value",
        "ext_serde::Serialize@Extensions::serialize.safety", "ext_serde::Extensions::fields_count.ensures#counts_the_emitted_elements", "ext_serde::ExtensionsVariantV1::code.ensures#variant_code"];
    let rounds = if a.tier == "thorough" { 40 } else { 12 };
    let sk = SigningKey::from_bytes(&[7u8; 32]);
    for variant in ["basic", "causal"] { for k in [0usize, 1, 2, 8] {
        if variant == "basic" && k > 0 { continue; }
        let log_id = LogId::from_topic(Topic::from([3u8; 32]));
        // digests, plus (k = 8) hashes that share a long common prefix / differ only in one late byte
        let prev: Vec<Hash> = (0..k).map(|i| if k == 8 && i >= 4 { let mut b = [0xABu8; 32]; b[31 - (i - 4) * 9] = i as u8; Hash::from(b) } else { Hash::digest([i as u8; 5]) }).collect();
        let bytes = if variant == "basic" { encode_cbor(&Extensions::from_topic(Topic::from([3u8; 32]))).unwrap() }
            else { encode_cbor(&(1u16, 1u16, log_id, Timestamp::new(42), prev.clone())).unwrap() };
        let mut encodings = std::collections::BTreeSet::new();
        let mut ids = std::collections::BTreeSet::new();
        let mut verify_fail = 0;
        // a signed header built from the first decode; later "equal" copies are produced by decoding its bytes again
        let first: Extensions = decode_cbor(&bytes[..]).expect("decodes");
        let mut header = Header::<Extensions> { verifying_key: sk.verifying_key(), version: 1, signature: None, payload_size: 0, payload_hash: None, seq_num: 0, backlink: None, extensions: first.clone() };
        header.sign(&sk);
        let header_bytes = header.to_bytes();
        for _ in 0..rounds {
            n += 1;
            let e: Extensions = decode_cbor(&bytes[..]).expect("decodes");
            assert!(e == first, "decoded values are equal");
            encodings.insert(encode_cbor(&e).unwrap());
            let h: Header<Extensions> = decode_cbor(&header_bytes[..]).expect("header decodes");
            assert!(h == header, "decoded headers are equal");
            ids.insert(h.hash());
            if !h.verify() { verify_fail += 1; }
        }
        if encodings.len() > 1 || ids.len() > 1 || verify_fail > 0 {
            let class = format!("equal-{variant}-extensions-encode-to-different-bytes");
            if reported.insert(class.clone()) {
                rp_core::report(true, &class, json!({"variant": variant, "previous_hashes": k, "decodes_of_the_same_bytes": rounds}),
                    json!({"distinct_encodings_of_equal_values": encodings.len(), "distinct_operation_ids_of_equal_headers": ids.len(), "decoded_headers_failing_verify": verify_fail}), &obl);
            }
        }
    } }
    // round trip of every header shape that validation accepts, for two extension types (Option<u64> incl. None; unit)
    {
        use p2panda_core::operation::validate_header;
        fn shapes<E: p2panda_core::Extensions + PartialEq>(sk: &SigningKey, exts: Vec<E>, label: &str, n: &mut u64, out: &mut Vec<(String, serde_json::Value, serde_json::Value)>) {
            for ext in exts { for payload_size in [0u64, 5] { for with_hash in [false, true] { for seq_num in [0u64, 3] { for with_backlink in [false, true] {
                let mut h = Header::<E> { verifying_key: sk.verifying_key(), version: 1, signature: None, payload_size: payload_size as _, payload_hash: if with_hash { Some(Hash::digest(b"p")) } else { None },
                    seq_num: seq_num as _, backlink: if with_backlink { Some(Hash::digest(b"b")) } else { None }, extensions: ext.clone() };
                h.sign(sk);
                if validate_header(&h).is_err() { continue; }
                *n += 1;
                let bytes = h.to_bytes();
                let back: Result<Header<E>, _> = decode_cbor(&bytes[..]);
                let ok = matches!(&back, Ok(b) if *b == h && b.verify() && b.to_bytes() == bytes);
                if !ok { out.push((format!("validated-header-does-not-round-trip-{label}"), json!({"payload_size": payload_size, "payload_hash": with_hash, "seq_num": seq_num, "backlink": with_backlink, "extensions": label}), json!({"decoded": back.as_ref().map(|_| "differs or fails verify").map_err(|e| e.to_string())}))); }
            } } } } }
        }
        let mut out = vec![];
        shapes::<Option<u64>>(&sk, vec![None, Some(7)], "optional-extension", &mut n, &mut out);
        shapes::<()>(&sk, vec![()], "unit-extension", &mut n, &mut out);
        for (c, i, o) in out { if reported.insert(c.clone()) { rp_core::report(true, &c, i, o, &["header_serde::Visitor@HeaderVisitor::visit_seq.ensures#decoding_the_encoding_of_a_validated_header_yields_an_equal_header", "header_serde::Serialize@Header::serialize.ensures#encoding_is_a_function_of_the_value", "oplog::validate_header.ensures#ok_iff_header_well_formed_and_authentic", "header_serde::Header::field_count.ensures#counts_the_emitted_elements"]); } }
    }
    println!("{}", json!({"summary": true, "evaluations": n, "distinct_nontrivial": n, "exhaustive": false,
        "rule": "the same bytes decoded repeatedly (fresh HashSet each time); equal values must have one encoding, one operation id, and verify",
        "bound": format!("{rounds} decodes x previous sets of size 0,1,2,8"), "violating_classes": reported}));
}
