//! C16 replay (subscriber side): authenticity of wrapped ephemeral messages against the real p2panda crate, through
//! the cfg-guarded hooks verif_wrapped_to_bytes / verif_wrapped_from_bytes (= WrappedMessage::new + to_bytes and
//! WrappedMessage::from_bytes). A validly signed message is produced, ONE field of its CBOR tuple is changed and the
//! result re-encoded: from_bytes accepting it means a tampered message would be yielded to the application.
use p2panda_core::cbor::{decode_cbor, encode_cbor};
use p2panda_core::timestamp::{HybridTimestamp, LamportTimestamp, Timestamp};
use p2panda_core::{Signature, SigningKey, VerifyingKey};
use p2panda::streams::{verif_wrapped_from_bytes, verif_wrapped_to_bytes};
use serde_json::json;

type Tuple = (u64, VerifyingKey, Signature, Timestamp, LamportTimestamp, String);

const FIELDS: [&str; 6] = ["none", "version", "author", "timestamp", "logical", "body"];

fn try_one(t: u64, l: u64, body: &str, field: &str) -> Option<serde_json::Value> {
    let sk = SigningKey::from_bytes(&[7u8; 32]);
    let other = SigningKey::from_bytes(&[9u8; 32]);
    let ts = HybridTimestamp::from_parts(Timestamp::new(t), LamportTimestamp::new(l));
    let bytes = verif_wrapped_to_bytes::<String>(body.to_string(), ts, &sk)?;
    let (v, k, s, pt, pl, b): Tuple = decode_cbor(&bytes[..]).ok()?;
    let (pt_u, pl_u): (u64, u64) = (t, l);
    let tampered: Tuple = match field {
        "none" => (v, k, s, pt, pl, b),
        "version" => (v + 1, k, s, pt, pl, b),
        "author" => (v, other.verifying_key(), s, pt, pl, b),
        "timestamp" => (v, k, s, Timestamp::new(pt_u.wrapping_add(1)), pl, b),
        "logical" => (v, k, s, pt, LamportTimestamp::new(pl_u.wrapping_add(1)), b),
        _ => (v, k, s, pt, pl, format!("{b}!")),
    };
    let tb = encode_cbor(&tampered).ok()?;
    let res = verif_wrapped_from_bytes::<String>(&tb);
    match (field, &res) {
        ("none", Err(e)) => Some(json!({"untampered_message_rejected": e})),
        ("none", Ok((rk, rts, rb))) if *rk != sk.verifying_key() || *rts != ts || rb != body =>
            Some(json!({"untampered_message_decoded_differently": format!("{rk} {rts} {rb}")})),
        ("none", _) => None,
        (_, Ok((rk, rts, rb))) => Some(json!({"tampered_field": field, "accepted_as": {"author": rk.to_string(), "timestamp": rts.to_string(), "body": rb}})),
        _ => None,
    }
}

fn main() {
    let a = rp_core::args();
    let mut cands: Vec<(u64, u64, String, String)> = vec![];
    if let Some(v) = &a.input {
        for r in v.as_array().cloned().unwrap_or_default() {
            let i = &r["input"];
            if let (Some(t), Some(l), Some(b), Some(f)) = (i["t"].as_u64(), i["l"].as_u64(), i["body"].as_str(), i["field"].as_str()) {
                cands.push((t, l, b.to_string(), f.to_string()));
            }
        }
    } else {
        for (t, l) in [(0u64, 0u64), (1, 0), (1_700_000_000_000_000, 5), (u64::MAX - 1, u64::MAX - 1)] {
            for body in ["", "hello"] {
                for f in FIELDS { cands.push((t, l, body.to_string(), f.to_string())); }
            }
        }
    }
    let mut seen = std::collections::BTreeSet::new();
    let mut n = 0;
    for (t, l, body, f) in cands {
        n += 1;
        if let Some(obs) = try_one(t, l, &body, &f) {
            let class = format!("tampered-{f}-accepted");
            if seen.insert(class.clone()) || a.input.is_some() {
                rp_core::report(true, &class, json!({"t": t, "l": l, "body": body, "field": f}), obs,
                    &["ephemeral::WrappedMessage::verify.ensures#ok_iff_signature_over_version_timestamp_body",
                      "ephemeral::WrappedMessage::from_bytes.ensures"]);
            }
        }
    }
    println!("{}", json!({"summary": true, "evaluations": n, "violating_classes": seen}));
}
