//! C25 replay: the real TopicHandshakeInitiator / TopicHandshakeAcceptor (p2panda-sync) over in-memory channels.
//! (1) wired together: both return and the acceptor's output is the initiator's topic; (2) each role against every
//! scripted peer behaviour over the alphabet {Topic(a), Topic(b), Done, transport error, end of stream} up to length 3:
//! the role must return (no hang: 2 s timeout), must succeed exactly on the protocol-conforming script, and must have
//! sent only a prefix of its own protocol messages.
use futures_channel::mpsc;
use futures_util::{SinkExt, StreamExt, stream};
use p2panda_sync::protocols::{TopicHandshakeAcceptor, TopicHandshakeEvent, TopicHandshakeInitiator, TopicHandshakeMessage};
use p2panda_sync::traits::Protocol;
use serde_json::json;
use std::time::Duration;

type Msg = TopicHandshakeMessage<u8>;
#[derive(Clone, Debug)]
enum Item { M(Msg), Err }

#[tokio::main]
async fn main() {
    let _a = rp_core::args();
    let mut n = 0u64;
    let mut reported = std::collections::BTreeSet::new();
    let obl = ["handshake::Protocol@TopicHandshakeInitiator::run.ensures#ok_means_topic_then_done_sent", "handshake::Protocol@TopicHandshakeInitiator::run.ensures#ok_means_peer_answered_done", "handshake::Protocol@TopicHandshakeInitiator::run.ensures#misbehaving_peer_or_closure_is_an_error",
        "handshake::Protocol@TopicHandshakeInitiator::run.ensures#error_sends_only_a_protocol_prefix", "handshake::Protocol@TopicHandshakeAcceptor::run.ensures#ok_outputs_exactly_the_received_topic", "handshake::Protocol@TopicHandshakeAcceptor::run.ensures#ok_means_done_sent",
        "handshake::Protocol@TopicHandshakeAcceptor::run.ensures#misbehaving_peer_or_closure_is_an_error", "handshake::Protocol@TopicHandshakeAcceptor::run.ensures#error_sends_at_most_done", "handshake::Protocol@TopicHandshakeInitiator::run.safety", "handshake::Protocol@TopicHandshakeAcceptor::run.safety"];
    // (1) both roles wired together, several topics
    for topic in [0u8, 7, 255] {
        n += 1;
        let (mut itx, irx) = mpsc::channel::<Msg>(8);
        let (mut atx, arx) = mpsc::channel::<Msg>(8);
        let (ev1, _k1) = mpsc::channel::<TopicHandshakeEvent<u8>>(16);
        let (ev2, _k2) = mpsc::channel::<TopicHandshakeEvent<u8>>(16);
        let acc = tokio::spawn(async move { let mut s = irx.map(Ok::<_, ()>); tokio::time::timeout(Duration::from_secs(2), TopicHandshakeAcceptor::<u8, TopicHandshakeEvent<u8>>::new(ev2).run(&mut atx, &mut s)).await });
        let mut s = arx.map(Ok::<_, ()>);
        let ini = tokio::time::timeout(Duration::from_secs(2), TopicHandshakeInitiator::new(topic, ev1).run(&mut itx, &mut s)).await;
        let acc = acc.await.unwrap();
        let ok = matches!(ini, Ok(Ok(()))) && matches!(acc, Ok(Ok(t)) if t == topic);
        if !ok && reported.insert("handshake-does-not-agree-on-the-topic") { rp_core::report(true, "handshake-does-not-agree-on-the-topic", json!({"topic": topic}), json!({"initiator": format!("{ini:?}"), "acceptor": format!("{acc:?}")}), &obl); }
    }
    // (2) each role against scripted peers
    let alphabet = vec![Item::M(Msg::Topic(1)), Item::M(Msg::Topic(2)), Item::M(Msg::Done), Item::Err];
    let mut scripts: Vec<Vec<Item>> = vec![vec![]];
    for len in 1..=3 { let mut next = vec![]; for s in scripts.iter().filter(|s| s.len() == len - 1) { for x in &alphabet { let mut t = s.clone(); t.push(x.clone()); next.push(t); } } scripts.extend(next); }
    for script in &scripts { for role in ["initiator", "acceptor"] {
        n += 1;
        let (mut tx, mut sent_rx) = mpsc::channel::<Msg>(8);
        let (ev, _keep) = mpsc::channel::<TopicHandshakeEvent<u8>>(16);
        let mut peer = stream::iter(script.clone().into_iter().map(|i| match i { Item::M(m) => Ok(m), Item::Err => Err("transport error") }));
        let desc: Vec<String> = script.iter().map(|i| format!("{i:?}")).collect();
        let (returned, ok, out_topic) = if role == "initiator" {
            let r = tokio::time::timeout(Duration::from_secs(2), TopicHandshakeInitiator::new(1u8, ev).run(&mut tx, &mut peer)).await;
            (r.is_ok(), matches!(r, Ok(Ok(()))), None)
        } else {
            let r = tokio::time::timeout(Duration::from_secs(2), TopicHandshakeAcceptor::<u8, TopicHandshakeEvent<u8>>::new(ev).run(&mut tx, &mut peer)).await;
            (r.is_ok(), matches!(r, Ok(Ok(_))), r.ok().and_then(|x| x.ok()))
        };
        tx.close().await.ok();
        let mut sent = vec![]; while let Some(m) = sent_rx.next().await { sent.push(m); }
        let want_ok = if role == "initiator" { matches!(script.first(), Some(Item::M(Msg::Done))) } else { matches!((script.first(), script.get(1)), (Some(Item::M(Msg::Topic(_))), Some(Item::M(Msg::Done)))) };
        let own: Vec<Msg> = if role == "initiator" { vec![Msg::Topic(1), Msg::Done] } else { vec![Msg::Done] };
        let inp = json!({"role": role, "peer_script": desc});
        let class = if !returned { Some("handshake-hangs") } else if ok != want_ok { Some(if ok { "misbehaving-peer-accepted" } else { "conforming-peer-rejected" }) }
            else if !own.starts_with(&sent) { Some("sent-messages-are-not-a-protocol-prefix") }
            else if ok && sent != own { Some("success-without-sending-the-own-messages") }
            else if role == "acceptor" && ok && out_topic != match script.first() { Some(Item::M(Msg::Topic(t))) => Some(*t), _ => None } { Some("acceptor-outputs-another-topic") } else { None };
        if let Some(c) = class { if reported.insert(c) { rp_core::report(true, c, inp, json!({"returned": returned, "ok": ok, "sent": format!("{sent:?}"), "output": out_topic}), &obl); } }
    } }
    println!("{}", json!({"summary": true, "evaluations": n, "distinct_nontrivial": n, "exhaustive": true,
        "rule": "both handshake roles wired together (3 topics) + each role against every scripted peer over {Topic(1), Topic(2), Done, transport error} up to length 3 (then end of stream)",
        "bound": "scripts up to length 3", "violating_classes": reported}));
}
