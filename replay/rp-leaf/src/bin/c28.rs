//! C28 replay: the real p2panda-net/src/discovery/backoff.rs (included by path, hook `verif_value`)
//! with the default configuration; search over RNG seeds and increment counts for a value outside
//! [initial_value, max_value].
#![allow(dead_code)]
#[path = "/repo/p2panda-net/src/discovery/backoff.rs"]
mod backoff;

use std::time::Duration;

use rand::SeedableRng;
use rand_chacha::ChaCha20Rng;
use serde_json::json;

fn main() {
    let a = rp_core::args();
    let max = Duration::from_secs(30);
    let initial = Duration::from_secs(0);
    let seeds: Vec<u8> = if a.tier == "thorough" { (0..=255).collect() } else { (0..32).collect() };
    let mut n = 0u64;
    let mut reported = std::collections::BTreeSet::new();
    for s in seeds {
        let mut b = backoff::Backoff::new(backoff::Config::default(), ChaCha20Rng::from_seed([s; 32]));
        for k in 1..=40 {
            b.increment();
            n += 1;
            let v = b.verif_value();
            let class = if v > max { Some("above-max-after-increment") } else if v < initial { Some("below-initial") } else { None };
            if let Some(c) = class {
                if reported.insert(c) {
                    rp_core::report(true, c, json!({"config": "default", "rng_seed_byte": s, "increments": k}),
                        json!({"value_ms": v.as_millis() as u64, "max_ms": max.as_millis() as u64}),
                        &["backoff::Backoff::increment.ensures#within_bounds"]);
                }
            }
        }
    }
    // non-default bounds (hook Config::verif_with_bounds): a fresh backoff sits at the initial value, and every value stays in
    // [initial_value, max_value]
    for (ini_s, max_s) in [(10u64, 30u64), (2, 7), (5, 5)] {
        let (ini, mx) = (Duration::from_secs(ini_s), Duration::from_secs(max_s));
        for s in 0..8u8 {
            let mut b = backoff::Backoff::new(backoff::Config::verif_with_bounds(ini, mx), ChaCha20Rng::from_seed([s; 32]));
            n += 1;
            let v0 = b.verif_value();
            if v0 != ini && reported.insert("fresh-backoff-not-at-initial-value") {
                rp_core::report(true, "fresh-backoff-not-at-initial-value", json!({"config": {"initial_s": ini_s, "max_s": max_s}, "rng_seed_byte": s, "increments": 0}),
                    json!({"value_ms": v0.as_millis() as u64, "initial_ms": ini.as_millis() as u64}),
                    &["backoff::Backoff::new.ensures#starts_at_initial", "backoff::Backoff::new.ensures#within_bounds"]);
            }
            for k in 1..=20 {
                b.increment();
                n += 1;
                let v = b.verif_value();
                let class = if v > mx { Some("above-max-after-increment") } else if v < ini { Some("below-initial") } else { None };
                if let Some(c) = class {
                    if reported.insert(c) {
                        rp_core::report(true, c, json!({"config": {"initial_s": ini_s, "max_s": max_s}, "rng_seed_byte": s, "increments": k}),
                            json!({"value_ms": v.as_millis() as u64, "initial_ms": ini.as_millis() as u64, "max_ms": mx.as_millis() as u64}),
                            &["backoff::Backoff::increment.ensures#within_bounds", "backoff::Backoff::new.ensures#starts_at_initial", "backoff::Backoff::new.ensures#within_bounds"]);
                    }
                }
            }
        }
    }

    // elapsed time: after k increments (k = 0..=40, so also from a saturated backoff) the reset interval (<= max_reset =
    // 180 s in the default configuration) has passed; the next increment must bring the value back to the initial value
    for s in 0..8u8 {
        for k in 0..=40usize {
            let mut b = backoff::Backoff::new(backoff::Config::default(), ChaCha20Rng::from_seed([s; 32]));
            for _ in 0..k { b.increment(); }
            let before = b.verif_value();
            b.verif_age(Duration::from_secs(181));
            b.increment();
            n += 1;
            let v = b.verif_value();
            if v != initial && reported.insert("not-reset-after-the-reset-interval-elapsed") {
                rp_core::report(true, "not-reset-after-the-reset-interval-elapsed", json!({"config": "default", "rng_seed_byte": s, "increments_before": k, "then": "181 s pass, increment()"}),
                    json!({"value_before_ms": before.as_millis() as u64, "value_after_ms": v.as_millis() as u64, "initial_ms": 0}),
                    &["backoff::Backoff::increment.ensures#resets_when_elapsed"]);
            }
        }
    }
    println!("{}", json!({"summary": true, "evaluations": n, "violating_classes": reported}));
}
