//! C24 replay: the real p2panda-sync/src/dedup.rs (included by path) against the executable
//! specification "remember exactly the last `capacity` accepted items"; exhaustive over short
//! insertion sequences for small capacities plus a few large-capacity runs.  Also tests the one
//! undocumented std assumption of the proof: VecDeque::with_capacity(n).capacity() == n.
#![allow(dead_code)]
#[path = "/repo/p2panda-sync/src/dedup.rs"]
mod dedup;

use serde_json::json;
use std::collections::VecDeque;

fn model_insert(s: &mut Vec<u32>, cap: usize, x: u32) -> bool {
    if s.contains(&x) { return false; }
    if s.len() >= cap { s.remove(0); }
    s.push(x);
    true
}

fn run(cap: usize, xs: &[u32]) -> Option<(usize, String)> {
    let mut b = dedup::DeduplicationBuffer::new(cap);
    let mut m: Vec<u32> = vec![];
    for (i, &x) in xs.iter().enumerate() {
        let r = b.insert(x);
        let e = model_insert(&mut m, cap, x);
        if r != e { return Some((i, format!("insert({x}) returned {r}, specification says {e}"))); }
        for y in 0..6u32 {
            if b.contains(&y) != m.contains(&y) {
                return Some((i, format!("after insert({x}): contains({y}) = {}, specification says {}", b.contains(&y), m.contains(&y))));
            }
        }
    }
    None
}

fn main() {
    let a = rp_core::args();
    let mut n = 0u64;
    let mut reported = std::collections::BTreeSet::new();
    for cap in 1..=4096usize {
        let c = VecDeque::<u32>::with_capacity(cap).capacity();
        if c != cap && reported.insert("std-capacity-assumption") {
            rp_core::report(false, "std-capacity-assumption", json!({"n": cap}), json!({"capacity": c}), &[]);
        }
    }
    let maxlen = if a.tier == "thorough" { 8 } else { 6 };
    for cap in 1..=3usize {
        let alpha = (cap + 2) as u32;
        for len in 1..=maxlen {
            let total = (alpha as u64).pow(len as u32);
            for code in 0..total {
                let mut xs = vec![];
                let mut c = code;
                for _ in 0..len { xs.push((c % alpha as u64) as u32); c /= alpha as u64; }
                n += 1;
                if let Some((i, what)) = run(cap, &xs) {
                    let class = if xs[..i].contains(&xs[i]) { "reinsert-remembered-item" } else { "fresh-item" };
                    if reported.insert(class) {
                        rp_core::report(true, class, json!({"capacity": cap, "inserts": xs, "step": i}), json!(what),
                            &["dedup::DeduplicationBuffer::insert.ensures#exact_new_state", "dedup::DeduplicationBuffer::insert.ensures#reports_duplicate_iff_remembered", "dedup::DeduplicationBuffer::insert.ensures#wf"]);
                    }
                }
            }
        }
    }
    // large capacities (window must not be clamped)
    for cap in [1024usize, 1025, 1500, 5000] {
        let mut b = dedup::DeduplicationBuffer::new(cap);
        for x in 0..cap as u32 { b.insert(x); }
        n += 1;
        if !b.contains(&0) && reported.insert("large-capacity-window") {
            rp_core::report(true, "large-capacity-window", json!({"capacity": cap, "inserts": format!("0..{cap}")}), json!("item 0 forgotten although only `capacity` items were inserted"),
                &["dedup::DeduplicationBuffer::new.ensures#capacity"]);
        }
    }
    println!("{}", json!({"summary": true, "evaluations": n, "violating_classes": reported}));
}
