//! C33 replay: the real state::{add, remove, promote, demote} (hook p2panda_auth::verif) against the executable
//! statement of the guards: accepted iff the actor is an active manager (or removes itself) and the action is valid;
//! an accepted call changes exactly the target's entry; nobody becomes active except the `added` of an accepted add.
//! Exhaustive over states on identities {0,1,2}: each absent or (member_counter in {1,2}, level in {Pull,Read,Manage},
//! access_counter in {0,1}), every (actor, target) pair over {0,1,2,3} (3 = unknown identity), every operation.
use p2panda_auth::verif::{add, demote, entries, member_state, members_state, promote, remove};
use p2panda_auth::group::GroupMembersState;
use p2panda_auth::{Access, AccessLevel};
use serde_json::{json, Value};
use std::collections::BTreeMap;

type Ent = (usize, u8, usize); // member_counter, level rank, access_counter
type M = BTreeMap<u8, Ent>;
fn level(r: u8) -> AccessLevel { match r { 0 => AccessLevel::Pull, 1 => AccessLevel::Read, 2 => AccessLevel::Write, _ => AccessLevel::Manage } }
fn rank(l: &AccessLevel) -> u8 { match l { AccessLevel::Pull => 0, AccessLevel::Read => 1, AccessLevel::Write => 2, AccessLevel::Manage => 3 } }
fn acc(r: u8) -> Access<()> { Access { conditions: None, level: level(r) } }
fn st(m: &M) -> GroupMembersState<u8, ()> { members_state(m.iter().map(|(id, e)| (*id, member_state(e.0, acc(e.1), e.2))).collect()) }
fn norm(s: &GroupMembersState<u8, ()>) -> M { entries(s).into_iter().map(|(id, mc, a, ac)| (id, (mc, rank(&a.level), ac))).collect() }
fn active(m: &M, id: u8) -> bool { m.get(&id).map(|e| e.0 % 2 == 1).unwrap_or(false) }
fn manager(m: &M, id: u8) -> bool { active(m, id) && m[&id].1 == 3 }
fn show(m: &M) -> Value { json!(m.iter().map(|(id, e)| json!({"id": id, "member_counter": e.0, "level": e.1, "access_counter": e.2})).collect::<Vec<_>>()) }

fn main() {
    let _a = rp_core::args();
    let mut n = 0u64;
    let mut reported = std::collections::BTreeSet::new();
    let mut rep = |class: &str, input: Value, obs: Value, obl: &[&str]| {
        if reported.insert(class.to_string()) { rp_core::report(true, class, input, obs, obl); }
    };
    let mut per: Vec<Option<Ent>> = vec![None];
    for mc in [1usize, 2] { for lv in [0u8, 1, 3] { for ac in [0usize, 1] { per.push(Some((mc, lv, ac))); } } }
    for e0 in &per { for e1 in &per { for e2 in &per {
        let mut m = M::new();
        if let Some(e) = e0 { m.insert(0, *e); } if let Some(e) = e1 { m.insert(1, *e); } if let Some(e) = e2 { m.insert(2, *e); }
        for actor in 0..4u8 { for target in 0..4u8 {
            // ---- add ----
            for lv in [0u8, 3] {
                n += 1;
                let want_ok = manager(&m, actor) && !active(&m, target);
                let got = add(st(&m), actor, target, acc(lv));
                let inp = json!({"op": "add", "state": show(&m), "actor": actor, "target": target, "level": lv});
                match &got {
                    Ok(s2) => {
                        let g = norm(s2);
                        if !want_ok { rep("add-accepted-without-authorization", inp.clone(), json!({"result": show(&g)}), &["auth_state::add.ensures#accepted_iff_adder_is_active_manager_and_added_not_active", "auth_state::add.safety"]); }
                        let mut w = m.clone();
                        let mc = m.get(&target).map(|e| e.0 + 1).unwrap_or(1);
                        w.insert(target, (mc, lv, 0));
                        if want_ok && g != w { rep("add-effect-differs", inp.clone(), json!({"result": show(&g), "expected": show(&w)}), &["auth_state::add.ensures#effect_only_added_changes", "auth_state::add.ensures#no_member_appears_except_added", "auth_state::add.safety"]); }
                    }
                    Err(_) => if want_ok { rep("add-rejected-although-authorized", inp.clone(), json!({"result": "Err"}), &["auth_state::add.ensures#accepted_iff_adder_is_active_manager_and_added_not_active", "auth_state::add.safety"]); }
                }
            }
            // ---- remove ----
            {
                n += 1;
                let want_ok = active(&m, actor) && (manager(&m, actor) || actor == target) && active(&m, target);
                let got = remove(st(&m), actor, target);
                let inp = json!({"op": "remove", "state": show(&m), "actor": actor, "target": target});
                match &got {
                    Ok(s2) => {
                        let g = norm(s2);
                        if !want_ok { rep("remove-accepted-without-authorization", inp.clone(), json!({"result": show(&g)}), &["auth_state::remove.ensures#accepted_iff_remover_active_and_manager_or_self_and_removed_active", "auth_state::remove.safety"]); }
                        else {
                            let mut w = m.clone(); let e = m[&target]; w.insert(target, (e.0 + 1, e.1, 0));
                            if g != w { rep("remove-effect-differs", inp.clone(), json!({"result": show(&g), "expected": show(&w)}), &["auth_state::remove.ensures#effect_only_removed_changes", "auth_state::remove.ensures#no_member_appears", "auth_state::remove.safety"]); }
                        }
                    }
                    Err(_) => if want_ok { rep("remove-rejected-although-authorized", inp.clone(), json!({"result": "Err"}), &["auth_state::remove.ensures#accepted_iff_remover_active_and_manager_or_self_and_removed_active", "auth_state::remove.safety"]); }
                }
            }
            // ---- promote / demote ----
            for (name, is_promote) in [("promote", true), ("demote", false)] {
                for lv in [0u8, 1, 3] {
                    n += 1;
                    let extreme = if is_promote { 3 } else { 0 };
                    let known = m.contains_key(&target);
                    let noop = known && m[&target].1 == extreme;
                    let guard = manager(&m, actor) && active(&m, target);
                    // the statement: accepted only if the author is an active manager and the action is valid (target an
                    // active member) in this state — also when the target already has the extreme level (no-op)
                    let want_ok = known && guard;
                    let got = if is_promote { promote(st(&m), actor, target, acc(lv)) } else { demote(st(&m), actor, target, acc(lv)) };
                    let inp = json!({"op": name, "state": show(&m), "actor": actor, "target": target, "level": lv});
                    let pre = format!("auth_state::{name}");
                    let o_acc = [format!("{pre}.ensures#accepted_iff"), format!("{pre}.safety"), "auth_state::modify.ensures#accepted_iff_modifier_is_active_manager_and_modified_active".to_string(), "auth_state::modify.safety".to_string()];
                    let o_eff = [format!("{pre}.ensures#effect_only_{}_access_changes", if is_promote { "promoted" } else { "demoted" }), format!("{pre}.ensures#changed_only_if_{}_is_active_manager_and_{}_active", if is_promote { "promoter" } else { "demoter" }, if is_promote { "promoted" } else { "demoted" }), format!("{pre}.ensures#no_member_appears"), format!("{pre}.safety"), "auth_state::modify.ensures#effect_only_modified_access_changes".to_string(), "auth_state::modify.ensures#no_member_appears".to_string(), "auth_state::modify.safety".to_string()];
                    let o_acc: Vec<&str> = o_acc.iter().map(|s| s.as_str()).collect();
                    let o_eff: Vec<&str> = o_eff.iter().map(|s| s.as_str()).collect();
                    match &got {
                        Ok(s2) => {
                            let g = norm(s2);
                            if g != m && !guard { rep(&format!("{name}-changes-state-without-authorization"), inp.clone(), json!({"result": show(&g)}), &o_eff); }
                            if !want_ok { rep(&format!("{name}-accepted-{}", if noop { "without-authorization-when-target-already-at-extreme-level" } else { "unexpectedly" }), inp.clone(), json!({"result": show(&g)}), &o_acc); }
                            else {
                                let mut w = m.clone();
                                let e = m[&target];
                                if !noop && e.1 != lv { w.insert(target, (e.0, lv, e.2 + 1)); }
                                if g != w { rep(&format!("{name}-effect-differs"), inp.clone(), json!({"result": show(&g), "expected": show(&w)}), &o_eff); }
                            }
                        }
                        Err(_) => if want_ok { rep(&format!("{name}-rejected-although-valid"), inp.clone(), json!({"result": "Err"}), &o_acc); }
                    }
                }
            }
        } }
    } } }
    // ---- GroupCrdt::process level: an operation of somebody who is not an active manager in the state at its dependencies
    // must be rejected and leave the replica (heads, members) unchanged — also when the action would not change anything
    {
        use p2panda_auth::group::GroupMember;
        use p2panda_auth::test_utils::{create_group, demote_member, promote_member, TestGroup, TestOperation};
        let a = |r: u8| acc(r);
        let create = create_group('A', 0, 'G', vec![(GroupMember::Individual('A'), a(3)), (GroupMember::Individual('B'), a(3)), (GroupMember::Individual('X'), a(0)), (GroupMember::Individual('R'), a(1))], vec![]);
        let cases: Vec<(&str, TestOperation)> = vec![
            ("non-member demotes a member that is already at Pull", demote_member('Z', 1, 'G', GroupMember::Individual('X'), a(0), vec![0])),
            ("reader demotes a member that is already at Pull", demote_member('R', 1, 'G', GroupMember::Individual('X'), a(0), vec![0])),
            ("non-member promotes a member that is already a manager", promote_member('Z', 1, 'G', GroupMember::Individual('B'), a(3), vec![0])),
            ("reader promotes a member that is already a manager", promote_member('R', 1, 'G', GroupMember::Individual('B'), a(3), vec![0])),
            ("reader promotes a pull member", promote_member('R', 1, 'G', GroupMember::Individual('X'), a(1), vec![0])),
            ("non-member re-creates the existing group with itself as only manager", create_group('Z', 1, 'G', vec![(GroupMember::Individual('Z'), a(3))], vec![0])),
        ];
        for (what, op) in cases {
            n += 1;
            let y = TestGroup::process(TestGroup::init(), &create).expect("create");
            let before = { let mut h = y.heads(); h.sort(); h };
            if let Ok(y2) = TestGroup::process(y, &op) {
                let after = { let mut h = y2.heads(); h.sort(); h };
                let mut mem: Vec<String> = y2.members('G').into_iter().map(|(id, a)| format!("{id}:{:?}", a.level)).collect(); mem.sort();
                rep(if what.contains("re-creates") { "process-accepts-create-of-an-existing-group" } else { "process-accepts-operation-of-unauthorized-author" }, json!({"ops": [format!("{create:?}"), format!("{op:?}")], "case": what}), json!({"heads_before": before, "heads_after": after, "members_of_G_after": mem}),
                    if what.contains("re-creates") { &["auth_state::apply_action.ensures#create_accepted_only_for_a_new_group", "auth_state::apply_action.safety"][..] } else {
                    &["auth_state::promote.ensures#accepted_iff", "auth_state::demote.ensures#accepted_iff", "auth_state::promote.safety", "auth_state::demote.safety", "auth_state::modify.ensures#accepted_iff_modifier_is_active_manager_and_modified_active",
                      "auth_state::apply_action.ensures#promote_accepted_only_from_an_active_manager", "auth_state::apply_action.ensures#demote_accepted_only_from_an_active_manager", "auth_state::apply_action.ensures#add_accepted_only_from_an_active_manager", "auth_state::apply_action.ensures#remove_accepted_only_from_an_active_manager_or_self", "auth_state::apply_action.safety"][..] });
            }
        }
    }
    // ---- differential check of GroupCrdt::process / validate: whether an operation is accepted must depend only on the state
    // at its declared dependencies. A replica that knows the whole history (several concurrent heads) and a fresh replica that
    // processed nothing but the operation's ancestors must agree on accepting or rejecting it — for arbitrary candidate
    // operations (valid or not, one or two dependencies) over random histories.
    {
        use p2panda_auth::group::{GroupAction, GroupMember};
        use p2panda_auth::test_utils::{TestGroup, TestGroupState, TestOperation};
        use std::collections::BTreeSet;
        struct Lcg(u64);
        impl Lcg { fn next(&mut self, k: usize) -> usize { self.0 = self.0.wrapping_mul(6364136223846793005).wrapping_add(1442695040888963407); ((self.0 >> 33) as usize) % k.max(1) } }
        fn try_process(y: TestGroupState, op: &TestOperation) -> (TestGroupState, bool) { let keep = y.clone(); match TestGroup::process(y, op) { Ok(y2) => (y2, true), Err(_) => (keep, false) } }
        let actors = ['A', 'B', 'C', 'D'];
        let mut rng = Lcg(0x33);
        for hist in 0..300u32 {
            let create = TestOperation { id: 0, author: 'A', dependencies: vec![], group_id: 'G', action: GroupAction::Create { initial_members: vec![(GroupMember::Individual('A'), acc(3)), (GroupMember::Individual('B'), acc(3)), (GroupMember::Individual('C'), acc(1))] } };
            let mut ops: Vec<TestOperation> = vec![create.clone()];
            let mut anc: Vec<BTreeSet<u32>> = vec![BTreeSet::new()];   // strict ancestors per op id
            let (mut full, _) = try_process(TestGroup::init(), &create);
            for _ in 0..10 {
                let id = ops.len() as u32;
                // dependencies: the maximal elements of the ancestor closure of 1-2 random published operations
                let picks: Vec<u32> = (0..1 + rng.next(2)).map(|_| rng.next(ops.len()) as u32).collect();
                let mut closure: BTreeSet<u32> = BTreeSet::new();
                for p_ in &picks { closure.insert(*p_); closure.extend(anc[*p_ as usize].iter().cloned()); }
                let deps: Vec<u32> = closure.iter().cloned().filter(|x| !closure.iter().any(|y| anc[*y as usize].contains(x))).collect();
                let author = actors[rng.next(4)];
                let target = GroupMember::Individual(actors[rng.next(4)]);
                let lv = [0u8, 1, 3][rng.next(3)];
                let action = match rng.next(4) { 0 => GroupAction::Add { member: target, access: acc(lv) }, 1 => GroupAction::Remove { member: target }, 2 => GroupAction::Promote { member: target, access: acc(lv.max(1)) }, _ => GroupAction::Demote { member: target, access: acc(lv.min(1)) } };
                let op = TestOperation { id, author, dependencies: deps.clone(), group_id: 'G', action };
                // replica that processed only the ancestors (in creation order = a causal order)
                let mut only = TestGroup::init();
                for o in ops.iter().filter(|o| closure.contains(&o.id)) { only = try_process(only, o).0; }
                let (_, ok_only) = try_process(only, &op);
                let (full2, ok_full) = try_process(full.clone(), &op);
                n += 1;
                if ok_only != ok_full {
                    rep("acceptance-depends-on-operations-outside-the-declared-dependencies", json!({"history": ops.iter().map(|o| format!("{o:?}")).collect::<Vec<_>>(), "candidate": format!("{op:?}"), "round": hist}),
                        json!({"accepted_by_replica_with_only_the_ancestors": ok_only, "accepted_by_replica_with_the_whole_history": ok_full}), &["bounded-stand-in: GroupCrdt::validate"]);
                }
                if ok_only && ok_full { full = full2; let mut a: BTreeSet<u32> = closure.clone(); a.remove(&id); anc.push(a); ops.push(op); }
            }
        }
    }
    println!("{}", json!({"summary": true, "evaluations": n, "distinct_nontrivial": n, "exhaustive": true,
        "rule": "real state::{add,remove,promote,demote} vs executable guards/effects of the statement, all states over identities {0,1,2} x 12 member states + absent, actors/targets {0..3}",
        "bound": "3 identities + 1 unknown, member_counter<=2, access_counter<=1, levels {Pull,Read,Manage}", "violating_classes": reported}));
}
