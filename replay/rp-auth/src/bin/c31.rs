//! C31 replay / bounded stand-in: the real `GroupCrdt` (StrongRemove resolver) on replicas that process the same
//! set of operations in different causal orders.
//!  part 1 (the kernel that is proved, replayed on real code): one manager issues two concurrent access changes of
//!         the same member; every pair of accesses over conditions {None, Some(0), Some(1)} x 4 levels. Both delivery
//!         orders, and the same query repeated (every `heads()` call builds a fresh HashSet with a fresh hasher seed,
//!         so `merge_states` enumerates the heads in a different order from call to call).
//!  part 2 (bounded stand-in for the parts outside the contracts: resolver, bubbles, topological sort): random
//!         histories created by 3 replicas working concurrently (create, add, remove, promote, demote, nested group),
//!         unconditioned accesses; all operations are then delivered to fresh replicas in several random causal orders.
//! Checked: all replicas (and repeated queries on one replica) report identical members / root members per group, and an
//! operation accepted by its creator is accepted everywhere.
use p2panda_auth::group::resolver::StrongRemove;
use p2panda_auth::group::{GroupAction, GroupCrdt, GroupCrdtState, GroupMember};
use p2panda_auth::traits::{Conditions, Operation};
use p2panda_auth::{Access, AccessLevel};
use serde_json::{json, Value};
use std::collections::{BTreeMap, BTreeSet};

#[derive(Clone, Debug, PartialEq, Eq, PartialOrd, Ord)]
pub struct Cond(pub u8);
impl Conditions for Cond {}

#[derive(Clone, Debug)]
pub struct Op { id: u32, author: char, deps: Vec<u32>, group: char, action: GroupAction<char, Cond> }
impl Operation<char, u32, Cond> for Op {
    fn id(&self) -> u32 { self.id }
    fn author(&self) -> char { self.author }
    fn dependencies(&self) -> Vec<u32> { self.deps.clone() }
    fn group_id(&self) -> char { self.group }
    fn action(&self) -> GroupAction<char, Cond> { self.action.clone() }
}
type Rs = StrongRemove<char, u32, Op, Cond>;
type G = GroupCrdt<char, u32, Op, Cond, Rs>;
type Y = GroupCrdtState<char, u32, Op, Cond>;

fn level(r: u8) -> AccessLevel { match r { 0 => AccessLevel::Pull, 1 => AccessLevel::Read, 2 => AccessLevel::Write, _ => AccessLevel::Manage } }
fn rank(l: &AccessLevel) -> u8 { match l { AccessLevel::Pull => 0, AccessLevel::Read => 1, AccessLevel::Write => 2, AccessLevel::Manage => 3 } }
fn access(c: Option<u8>, r: u8) -> Access<Cond> { Access { conditions: c.map(Cond), level: level(r) } }
type View = BTreeMap<char, (Vec<(char, Option<u8>, u8)>, Vec<(String, Option<u8>, u8)>)>;

/// members and root members of every group, in a canonical order
fn view(y: &Y, groups: &[char]) -> View {
    let mut v = View::new();
    for g in groups {
        let mut m: Vec<(char, Option<u8>, u8)> = y.members(*g).into_iter().map(|(id, a)| (id, a.conditions.map(|c| c.0), rank(&a.level))).collect();
        m.sort();
        let mut r: Vec<(String, Option<u8>, u8)> = y.root_members(*g).into_iter().map(|(id, a)| (format!("{id:?}"), a.conditions.map(|c| c.0), rank(&a.level))).collect();
        r.sort();
        v.insert(*g, (m, r));
    }
    v
}
fn process(y: Y, op: &Op) -> Result<Y, Y> { let keep = y.clone(); G::process(y, op).map_err(|_| keep) }

struct Lcg(u64);
impl Lcg { fn next(&mut self, n: usize) -> usize { self.0 = self.0.wrapping_mul(6364136223846793005).wrapping_add(1442695040888963407); ((self.0 >> 33) as usize) % n.max(1) } }

fn show_op(o: &Op) -> Value { json!({"id": o.id, "author": o.author.to_string(), "deps": o.deps, "group": o.group.to_string(), "action": format!("{:?}", o.action)}) }

fn main() {
    let _a = rp_core::args();
    let mut n = 0u64;
    let mut reported = BTreeSet::new();
    let kernel = ["auth_state::GroupCrdtInnerState::merge_states.ensures#result_is_the_head_by_head_merge_in_some_enumeration_of_the_heads", "auth_state::GroupCrdtInnerState::merge_states.safety", "auth_state::merge.ensures#pointwise_merge_rule", "auth_state::PartialOrd@Access::partial_cmp.safety"];
    // ---- part 1: two concurrent access changes of one member ----
    let accs: Vec<(Option<u8>, u8)> = [None, Some(0u8), Some(1u8)].into_iter().flat_map(|c| (0..4u8).map(move |r| (c, r))).collect();
    for a1 in &accs { for a2 in &accs {
        if a1 == a2 { continue; }
        let create = Op { id: 0, author: 'A', deps: vec![], group: 'G', action: GroupAction::Create { initial_members: vec![(GroupMember::Individual('A'), access(None, 3)), (GroupMember::Individual('X'), access(None, 1))] } };
        let mk = |id: u32, a: &(Option<u8>, u8)| { let acc = access(a.0, a.1); Op { id, author: 'A', deps: vec![0], group: 'G', action: if a.1 >= 1 { GroupAction::Promote { member: GroupMember::Individual('X'), access: acc } } else { GroupAction::Demote { member: GroupMember::Individual('X'), access: acc } } } };
        let (o1, o2) = (mk(1, a1), mk(2, a2));
        let mut answers = BTreeSet::new();
        let mut accepted = true;
        for order in [[&o1, &o2], [&o2, &o1]] {
            let mut y = G::init();
            y = process(y, &create).ok().expect("create accepted");
            for o in order { match process(y, o) { Ok(y2) => y = y2, Err(y2) => { y = y2; accepted = false; } } }
            for _ in 0..24 { n += 1; answers.insert(view(&y, &['G'])); }
        }
        if accepted && answers.len() > 1 {
            let conditioned = a1.0.is_some() || a2.0.is_some();
            let class = if conditioned { "concurrent-conditioned-access-changes-answer-depends-on-head-enumeration-order" } else { "concurrent-unconditioned-access-changes-diverge" };
            if reported.insert(class) {
                let mut obl: Vec<&str> = kernel.to_vec();
                obl.push(if conditioned { "auth_state::lemma.lemma_merged_heads_independent_of_head_order_with_totally_ordered_conditions" } else { "auth_state::lemma.lemma_merged_heads_independent_of_head_order_without_conditions" });
                rp_core::report(true, class, json!({"ops": [show_op(&create), show_op(&o1), show_op(&o2)], "delivery_orders": [[0, 1, 2], [0, 2, 1]], "queries_per_replica": 24}),
                    json!({"distinct_answers_for_members_of_G": answers.iter().map(|v| json!(v[&'G'].0.iter().map(|(id, c, r)| json!([id.to_string(), c, r])).collect::<Vec<_>>())).collect::<Vec<_>>()}), &obl);
            }
        }
    } }
    // ---- part 2: random concurrent histories, unconditioned ----
    let actors = ['A', 'B', 'C', 'D'];
    let groups = ['G', 'H'];
    let mut rng = Lcg(0x5eed_c31);
    for hist in 0..400u32 {
        // three replicas create operations concurrently; `seen[r]` = ids processed by replica r
        let mut ys: Vec<Y> = (0..3).map(|_| G::init()).collect();
        let mut seen: Vec<BTreeSet<u32>> = vec![BTreeSet::new(); 3];
        let mut ops: Vec<Op> = vec![];
        let c0 = Op { id: 0, author: 'A', deps: vec![], group: 'G', action: GroupAction::Create { initial_members: vec![(GroupMember::Individual('A'), access(None, 3)), (GroupMember::Individual('B'), access(None, 3)), (GroupMember::Individual('C'), access(None, 1))] } };
        for r in 0..3 { ys[r] = process(std::mem::replace(&mut ys[r], G::init()), &c0).ok().expect("create"); seen[r].insert(0); }
        ops.push(c0);
        let steps = 4 + rng.next(6);
        for _ in 0..steps {
            let r = rng.next(3);
            if rng.next(3) == 0 {
                // sync: replica r receives everything it has not seen, in creation order (a causal order)
                for o in &ops { if !seen[r].contains(&o.id) && o.deps.iter().all(|d| seen[r].contains(d)) {
                    match process(std::mem::replace(&mut ys[r], G::init()), o) { Ok(y) => { ys[r] = y; seen[r].insert(o.id); } Err(y) => { ys[r] = y;
                        if reported.insert("operation-accepted-by-its-creator-rejected-by-another-replica") { rp_core::report(true, "operation-accepted-by-its-creator-rejected-by-another-replica", json!({"history": ops.iter().map(show_op).collect::<Vec<_>>(), "rejected": o.id}), json!({}), &["bounded-stand-in"]); } } }
                } }
                continue;
            }
            let id = ops.len() as u32;
            let author = actors[rng.next(3)];
            let target = actors[rng.next(4)];
            let gsel = if rng.next(4) == 0 { 2 } else { 1 }; let grp = groups[rng.next(gsel)];
            let lv = [0u8, 1, 2, 3][rng.next(4)];
            let action = match rng.next(7) {
                6 => GroupAction::Add { member: GroupMember::Group('G'), access: access(None, lv.min(2)) },
                0 => GroupAction::Add { member: GroupMember::Individual(target), access: access(None, lv) },
                1 => GroupAction::Remove { member: GroupMember::Individual(target) },
                2 => GroupAction::Promote { member: GroupMember::Individual(target), access: access(None, lv.max(1)) },
                3 => GroupAction::Demote { member: GroupMember::Individual(target), access: access(None, lv.min(2)) },
                4 => GroupAction::Create { initial_members: vec![(GroupMember::Individual(author), access(None, 3)), (GroupMember::Individual(target), access(None, lv))] },
                _ => GroupAction::Add { member: GroupMember::Group('H'), access: access(None, lv.min(2)) },
            };
            let grp = if matches!(action, GroupAction::Create { .. }) { 'H' } else if matches!(action, GroupAction::Add { member: GroupMember::Group('G'), .. }) { 'H' } else if matches!(action, GroupAction::Add { member: GroupMember::Group(_), .. }) { 'G' } else { grp };
            let mut deps = ys[r].heads(); deps.sort();
            // now and then a dependency is listed twice (the list is a set: repeating an entry must not matter)
            if deps.len() == 1 && rng.next(5) == 0 { deps.push(deps[0]); }
            let op = Op { id, author, deps, group: grp, action };
            // the creator validates its own operation; rejected ones are never published. Creating H twice or acting on
            // a group the replica does not know is not generated (process would panic on a missing group state).
            if matches!(op.action, GroupAction::Create { .. }) && ops.iter().any(|o| matches!(o.action, GroupAction::Create { .. }) && o.group == 'H') { continue; }
            if op.group == 'H' && !matches!(op.action, GroupAction::Create { .. }) && !ys[r].has_group('H') { continue; }
            if let GroupAction::Add { member: GroupMember::Group(_), .. } = op.action { if !ys[r].has_group('H') { continue; } }
            match process(std::mem::replace(&mut ys[r], G::init()), &op) { Ok(y) => { ys[r] = y; seen[r].insert(id); ops.push(op); } Err(y) => { ys[r] = y; } }
        }
        // deliver everything to fresh replicas in random causal orders
        let mut answers: BTreeMap<View, Vec<u32>> = BTreeMap::new();
        for _ in 0..4 {
            let mut y = G::init();
            let mut done: BTreeSet<u32> = BTreeSet::new();
            let mut order = vec![];
            let mut rejected = None;
            while done.len() < ops.len() {
                let ready: Vec<&Op> = ops.iter().filter(|o| !done.contains(&o.id) && o.deps.iter().all(|d| done.contains(d))).collect();
                let o = ready[rng.next(ready.len())];
                match process(y, o) { Ok(y2) => y = y2, Err(y2) => { y = y2; rejected = Some(o.id); } }
                done.insert(o.id); order.push(o.id);
            }
            n += 1;
            if let Some(rj) = rejected { if reported.insert("operation-accepted-by-its-creator-rejected-by-another-replica") {
                rp_core::report(true, "operation-accepted-by-its-creator-rejected-by-another-replica", json!({"history": ops.iter().map(show_op).collect::<Vec<_>>(), "delivery_order": order, "rejected": rj}), json!({}), &["bounded-stand-in"]); } }
            for _ in 0..3 { answers.entry(view(&y, &groups)).or_insert(order.clone()); }
        }
        if answers.len() > 1 && reported.insert("replicas-diverge-on-unconditioned-history") {
            rp_core::report(true, "replicas-diverge-on-unconditioned-history", json!({"history": hist, "ops": ops.iter().map(show_op).collect::<Vec<_>>(), "delivery_orders": answers.values().collect::<Vec<_>>()}),
                json!({"distinct_answers": answers.keys().map(|v| json!(v.iter().map(|(g, (m, r))| json!({"group": g.to_string(), "members": m.iter().map(|(id, c, r)| json!([id.to_string(), c, r])).collect::<Vec<_>>(), "root_members": r})).collect::<Vec<_>>())).collect::<Vec<_>>()}),
                &["bounded-stand-in", "auth_state::lemma.lemma_merged_heads_independent_of_head_order_without_conditions", kernel[0], kernel[1]]);
        }
    }
    // ---- part 3: nested groups reached over several paths with different access caps (diamonds). Groups Y, X, R: Y holds
    // member D with level ly; X contains group Y with level lxy; R contains X with level lrx and Y with level lry. All level
    // combinations (sub-groups cannot be managers), both delivery orders of the two adds to R, 16 fresh replicas each
    // (every replica has its own HashMap seeds) with 2 queries: every replica must report the same members / groups of R.
    for ly in 0..3u8 { for lxy in 0..3u8 { for lrx in 0..3u8 { for lry in 0..3u8 {
        let mk = |id: u32, deps: Vec<u32>, group: char, action: GroupAction<char, Cond>| Op { id, author: 'A', deps, group, action };
        let ops = vec![
            mk(0, vec![], 'Y', GroupAction::Create { initial_members: vec![(GroupMember::Individual('A'), access(None, 3)), (GroupMember::Individual('D'), access(None, ly))] }),
            mk(1, vec![0], 'X', GroupAction::Create { initial_members: vec![(GroupMember::Individual('A'), access(None, 3)), (GroupMember::Group('Y'), access(None, lxy))] }),
            mk(2, vec![1], 'R', GroupAction::Create { initial_members: vec![(GroupMember::Individual('A'), access(None, 3))] }),
            mk(3, vec![2], 'R', GroupAction::Add { member: GroupMember::Group('X'), access: access(None, lrx) }),
            mk(4, vec![2], 'R', GroupAction::Add { member: GroupMember::Group('Y'), access: access(None, lry) }),
        ];
        let mut answers: BTreeSet<(Vec<(char, Option<u8>, u8)>, Vec<(char, Option<u8>, u8)>)> = BTreeSet::new();
        let mut all_ok = true;
        for rep in 0..16 {
            let order: [usize; 5] = if rep % 2 == 0 { [0, 1, 2, 3, 4] } else { [0, 1, 2, 4, 3] };
            let mut y = G::init();
            for i in order { match process(y, &ops[i]) { Ok(y2) => y = y2, Err(y2) => { y = y2; all_ok = false; } } }
            for _ in 0..2 {
                n += 1;
                let mut m: Vec<(char, Option<u8>, u8)> = y.members('R').into_iter().map(|(id, a)| (id, a.conditions.map(|c| c.0), rank(&a.level))).collect(); m.sort();
                let mut g: Vec<(char, Option<u8>, u8)> = y.groups('R').into_iter().map(|(id, a)| (id, a.conditions.map(|c| c.0), rank(&a.level))).collect(); g.sort();
                answers.insert((m, g));
            }
        }
        if all_ok && answers.len() > 1 && reported.insert("nested-group-members-differ-between-replicas") {
            rp_core::report(true, "nested-group-members-differ-between-replicas", json!({"ops": ops.iter().map(show_op).collect::<Vec<_>>(), "replicas": 16}),
                json!({"distinct_answers(members of R, groups of R)": answers.iter().map(|(m, g)| json!({"members": m.iter().map(|(id, c, r)| json!([id.to_string(), c, r])).collect::<Vec<_>>(), "groups": g.iter().map(|(id, c, r)| json!([id.to_string(), c, r])).collect::<Vec<_>>()})).collect::<Vec<_>>()}),
                &["bounded-stand-in"]);
        }
    } } } }
    // ---- part 4: directed histories, every listed causal delivery order must give the same acceptance and the same members
    {
        let mk = |id: u32, author: char, deps: Vec<u32>, group: char, action: GroupAction<char, Cond>| Op { id, author, deps, group, action };
        let ind = |c: char| GroupMember::Individual(c);
        let scenarios: Vec<(&str, Vec<Op>, Vec<Vec<usize>>)> = vec![
            ("two groups nested into each other concurrently", vec![
                mk(0, 'A', vec![], 'G', GroupAction::Create { initial_members: vec![(ind('A'), access(None, 3)), (ind('B'), access(None, 3))] }),
                mk(1, 'B', vec![0], 'H', GroupAction::Create { initial_members: vec![(ind('B'), access(None, 3)), (ind('A'), access(None, 3))] }),
                mk(2, 'A', vec![1], 'G', GroupAction::Add { member: GroupMember::Group('H'), access: access(None, 2) }),
                mk(3, 'B', vec![1], 'H', GroupAction::Add { member: GroupMember::Group('G'), access: access(None, 1) }),
            ], vec![vec![0, 1, 2, 3], vec![0, 1, 3, 2]]),
            ("operation of a concurrently removed manager that lists one dependency twice", vec![
                mk(0, 'A', vec![], 'G', GroupAction::Create { initial_members: vec![(ind('A'), access(None, 3)), (ind('B'), access(None, 3)), (ind('C'), access(None, 1))] }),
                mk(1, 'A', vec![0], 'G', GroupAction::Remove { member: ind('B') }),
                mk(2, 'A', vec![0], 'G', GroupAction::Promote { member: ind('C'), access: access(None, 2) }),
                mk(3, 'B', vec![2, 2], 'G', GroupAction::Add { member: ind('D'), access: access(None, 1) }),
            ], vec![vec![0, 1, 2, 3], vec![0, 2, 3, 1], vec![0, 2, 1, 3]]),
            ("three concurrent branches joined by an operation with two dependencies", vec![
                mk(0, 'A', vec![], 'G', GroupAction::Create { initial_members: vec![(ind('A'), access(None, 3)), (ind('B'), access(None, 3)), (ind('C'), access(None, 3))] }),
                mk(1, 'C', vec![0], 'G', GroupAction::Add { member: ind('E'), access: access(None, 1) }),
                mk(2, 'A', vec![0], 'G', GroupAction::Remove { member: ind('B') }),
                mk(3, 'A', vec![2], 'G', GroupAction::Add { member: ind('D'), access: access(None, 1) }),
                mk(4, 'C', vec![1, 2], 'G', GroupAction::Demote { member: ind('E'), access: access(None, 0) }),
            ], vec![vec![0, 1, 2, 3, 4], vec![0, 2, 3, 1, 4], vec![0, 2, 1, 4, 3], vec![0, 1, 2, 4, 3]]),
        ];
        for (what, ops, orders) in scenarios {
            n += 1;
            let mut outcomes = BTreeSet::new();
            for order in &orders {
                let mut y = G::init();
                let mut accepted = vec![];
                for i in order { match process(y, &ops[*i]) { Ok(y2) => { y = y2; accepted.push(ops[*i].id); } Err(y2) => y = y2 } }
                accepted.sort();
                let v = view(&y, &['G', 'H']);
                outcomes.insert((accepted, v));
            }
            if outcomes.len() > 1 && reported.insert("replicas-diverge-on-unconditioned-history") {
                rp_core::report(true, "replicas-diverge-on-unconditioned-history", json!({"scenario": what, "ops": ops.iter().map(show_op).collect::<Vec<_>>(), "delivery_orders": orders}),
                    json!({"distinct_outcomes(accepted ids, members of G)": outcomes.iter().map(|(a, v)| json!({"accepted": a, "members_of_G": v[&'G'].0.iter().map(|(id, c, r)| json!([id.to_string(), c, r])).collect::<Vec<_>>()})).collect::<Vec<_>>()}),
                    &["bounded-stand-in", kernel[0], kernel[1]]);
            }
        }
    }
    println!("{}", json!({"summary": true, "evaluations": n, "distinct_nontrivial": n, "exhaustive": false,
        "rule": "part 4: three directed concurrent histories (mutual nesting, repeated dependency entry, two-dependency join) in every listed delivery order; part 3: diamond of nested groups (Y in X, X and Y in R) over all 81 level combinations x 16 replicas x 2 queries; part 1: all ordered pairs of distinct accesses over conditions {None,0,1} x 4 levels as two concurrent access changes of one member, both delivery orders, 24 repeated queries each; part 2: 400 random histories of <= 10 operations created concurrently by 3 replicas (create/add/remove/promote/demote/groups nested either way, now and then a repeated dependency entry; unconditioned), each delivered to 4 fresh replicas in random causal orders, 3 repeated queries",
        "bound": "2 groups, 4 actors, <= 10 operations per history, 400 histories, fixed seed", "violating_classes": reported}));
}
