//! C32 replay: the real `state::merge` (through the cfg(p2panda_p2panda_verif) hook `p2panda_auth::verif`) against
//! commutativity, associativity and idempotence, exhaustively over small member-state domains:
//!   per-member: member_counter in {1,2,3}, access_counter in {0,1}, access level in all four, conditions in
//!               {None} (without conditions) or {None, Some(0), Some(1)} (C = u8, a totally ordered condition type);
//!   per-state:  members {0, 1}, each absent or present with a state from a reduced domain.
//! Failing inputs are classified by what the offending accesses look like, so that a known finding about conditioned
//! access does not hide a different violation.
use p2panda_auth::verif::{entries, member_state, members_state, merge};
use p2panda_auth::group::{GroupMembersState, MemberState};
use p2panda_auth::{Access, AccessLevel};
use serde_json::{json, Value};

/// a totally ordered condition type (derived order of the wrapped number)
#[derive(Clone, Debug, PartialEq, Eq, PartialOrd, Ord)]
pub struct Cond(pub u8);
impl p2panda_auth::traits::Conditions for Cond {}
type St = GroupMembersState<u8, Cond>;
type Ent = (usize, Option<u8>, u8, usize); // (member_counter, conditions, level rank, access_counter)

fn level(r: u8) -> AccessLevel { match r { 0 => AccessLevel::Pull, 1 => AccessLevel::Read, 2 => AccessLevel::Write, _ => AccessLevel::Manage } }
fn rank(l: &AccessLevel) -> u8 { match l { AccessLevel::Pull => 0, AccessLevel::Read => 1, AccessLevel::Write => 2, AccessLevel::Manage => 3 } }
fn access(c: Option<u8>, r: u8) -> Access<Cond> { Access { conditions: c.map(Cond), level: level(r) } }
fn ms(e: &Ent) -> MemberState<Cond> { member_state(e.0, access(e.1, e.2), e.3) }
fn st(v: &[(u8, Ent)]) -> St { members_state(v.iter().map(|(id, e)| (*id, ms(e))).collect()) }
fn norm(s: &St) -> Vec<(u8, Ent)> {
    let mut v: Vec<(u8, Ent)> = entries(s).into_iter().map(|(id, mc, a, ac)| (id, (mc, a.conditions.map(|c| c.0), rank(&a.level), ac))).collect();
    v.sort();
    v
}
fn show(v: &[(u8, Ent)]) -> Value { json!(v.iter().map(|(id, e)| json!({"id": id, "member_counter": e.0, "conditions": e.1, "level": e.2, "access_counter": e.3})).collect::<Vec<_>>()) }

/// classify a violating input by the shape of the accesses involved
fn classify(law: &str, states: &[&Vec<(u8, Ent)>]) -> String {
    let all: Vec<&Ent> = states.iter().flat_map(|s| s.iter().map(|(_, e)| e)).collect();
    let any_some = all.iter().any(|e| e.1.is_some());
    if !any_some { return format!("{law}-without-conditions"); }
    let any_none = all.iter().any(|e| e.1.is_none());
    // crossed: two conditioned accesses each "less" than the other
    let mut crossed = false;
    for a in &all { for b in &all {
        if let (Some(_), Some(_)) = (a.1, b.1) {
            let (x, y) = (access(a.1, a.2), access(b.1, b.2));
            if x < y && y < x { crossed = true; }
        }
    } }
    if crossed { format!("{law}-conditions-crossed") } else if any_none { format!("{law}-conditions-mixed-none-some") } else { format!("{law}-conditions-other") }
}

fn main() {
    let a = rp_core::args();
    let mut n = 0u64;
    let mut reported = std::collections::BTreeSet::new();
    // obligations a failing input of each law can stem from: the code-level ones (merge / partial_cmp meet their contracts)
    // plus the law's own lemmas
    let code = ["auth_state::merge.ensures#pointwise_merge_rule", "auth_state::merge.safety", "auth_state::PartialOrd@Access::partial_cmp.safety", "auth_state::merge.loop1.invariant#merged_so_far"];
    let mut rep = |class: String, input: Value, obs: Value| {
        let mut obl: Vec<&str> = code.to_vec();
        let plain = class.ends_with("-without-conditions");
        if class.starts_with("commutativity") { obl.push(if plain { "auth_state::lemma.lemma_merge_commutative_without_conditions" } else { "auth_state::lemma.lemma_merge_commutative_with_totally_ordered_conditions" }); }
        if class.starts_with("associativity") { obl.push(if plain { "auth_state::lemma.lemma_merge_associative_without_conditions" } else { "auth_state::lemma.lemma_merge_associative_with_totally_ordered_conditions" }); }
        if class.starts_with("idempotence") { obl.extend(["auth_state::lemma.lemma_merge_idempotent", "auth_state::lemma.lemma_access_lt_irreflexive"]); }
        if reported.insert(class.clone()) { rp_core::report(true, &class, input, obs, &obl); }
    };
    // a stored failing input is re-run as is
    if let Some(inp) = &a.input {
        for item in inp.as_array().cloned().unwrap_or_default() {
            let i = &item["input"];
            let parse = |v: &Value| -> Vec<(u8, Ent)> { v.as_array().map(|x| x.iter().map(|e| (e["id"].as_u64().unwrap() as u8, (e["member_counter"].as_u64().unwrap() as usize, e["conditions"].as_u64().map(|c| c as u8), e["level"].as_u64().unwrap() as u8, e["access_counter"].as_u64().unwrap() as usize))).collect()).unwrap_or_default() };
            let (s1, s2, s3) = (parse(&i["s1"]), parse(&i["s2"]), parse(&i["s3"]));
            let ab = norm(&merge(st(&s1), st(&s2))); let ba = norm(&merge(st(&s2), st(&s1)));
            if ab != ba { rep(classify("commutativity", &[&s1, &s2]), json!({"s1": show(&s1), "s2": show(&s2)}), json!({"merge(s1,s2)": show(&ab), "merge(s2,s1)": show(&ba)})); }
            let l = norm(&merge(merge(st(&s1), st(&s2)), st(&s3))); let r = norm(&merge(st(&s1), merge(st(&s2), st(&s3))));
            if l != r { rep(classify("associativity", &[&s1, &s2, &s3]), json!({"s1": show(&s1), "s2": show(&s2), "s3": show(&s3)}), json!({"(s1+s2)+s3": show(&l), "s1+(s2+s3)": show(&r)})); }
            let ii = norm(&merge(st(&s1), st(&s1)));
            if ii != { let mut x = s1.clone(); x.sort(); x } { rep(classify("idempotence", &[&s1]), json!({"s1": show(&s1)}), json!({"merge(s1,s1)": show(&ii)})); }
        }
        println!("{}", json!({"summary": true, "evaluations": 0, "violating_classes": reported}));
        return;
    }
    // ---- per-member domain, single member 0 present in all states ----
    for conds in [vec![None], vec![None, Some(0u8), Some(1u8)]] {
        let mut dom: Vec<Ent> = vec![];
        for mc in [1usize, 2, 3] { for ac in [0usize, 1] { for c in &conds { for r in 0..4u8 { dom.push((mc, *c, r, ac)); } } } }
        for x in &dom {
            let s1 = vec![(0u8, *x)];
            n += 1;
            let ii = norm(&merge(st(&s1), st(&s1)));
            if ii != s1 { rep(classify("idempotence", &[&s1]), json!({"s1": show(&s1)}), json!({"merge(s1,s1)": show(&ii)})); }
            for y in &dom {
                let s2 = vec![(0u8, *y)];
                n += 1;
                let ab = norm(&merge(st(&s1), st(&s2))); let ba = norm(&merge(st(&s2), st(&s1)));
                if ab != ba { rep(classify("commutativity", &[&s1, &s2]), json!({"s1": show(&s1), "s2": show(&s2)}), json!({"merge(s1,s2)": show(&ab), "merge(s2,s1)": show(&ba)})); }
                // associativity on a thinned third dimension (member_counter fixed to y's, to keep the run short)
                for z in dom.iter().filter(|z| z.0 <= 2) {
                    let s3 = vec![(0u8, *z)];
                    n += 1;
                    let l = norm(&merge(merge(st(&s1), st(&s2)), st(&s3))); let r = norm(&merge(st(&s1), merge(st(&s2), st(&s3))));
                    if l != r { rep(classify("associativity", &[&s1, &s2, &s3]), json!({"s1": show(&s1), "s2": show(&s2), "s3": show(&s3)}), json!({"(s1+s2)+s3": show(&l), "s1+(s2+s3)": show(&r)})); }
                }
            }
        }
    }
    // ---- state level: members {0,1}, each absent or from a reduced domain (no conditions) ----
    let mut small: Vec<Option<Ent>> = vec![None];
    for mc in [1usize, 2] { for ac in [0usize, 1] { for r in [0u8, 1] { small.push(Some((mc, None, r, ac))); } } }
    let mut states: Vec<Vec<(u8, Ent)>> = vec![];
    for a0 in &small { for a1 in &small {
        let mut v = vec![]; if let Some(e) = a0 { v.push((0u8, *e)); } if let Some(e) = a1 { v.push((1u8, *e)); } states.push(v);
    } }
    for s1 in &states { for s2 in &states {
        n += 1;
        let ab = norm(&merge(st(s1), st(s2))); let ba = norm(&merge(st(s2), st(s1)));
        if ab != ba { rep(classify("commutativity", &[s1, s2]), json!({"s1": show(s1), "s2": show(s2)}), json!({"merge(s1,s2)": show(&ab), "merge(s2,s1)": show(&ba)})); }
    } }
    let thin: Vec<&Vec<(u8, Ent)>> = states.iter().step_by(if a.tier == "thorough" { 1 } else { 3 }).collect();
    for s1 in &thin { for s2 in &thin { for s3 in &thin {
        n += 1;
        let l = norm(&merge(merge(st(s1), st(s2)), st(s3))); let r = norm(&merge(st(s1), merge(st(s2), st(s3))));
        if l != r { rep(classify("associativity", &[s1, s2, s3]), json!({"s1": show(s1), "s2": show(s2), "s3": show(s3)}), json!({"(s1+s2)+s3": show(&l), "s1+(s2+s3)": show(&r)})); }
    } } }
    println!("{}", json!({"summary": true, "evaluations": n, "distinct_nontrivial": n, "exhaustive": true,
        "rule": "merge(a,b)==merge(b,a); merge(merge(a,b),c)==merge(a,merge(b,c)); merge(a,a)==a on the real p2panda_auth state::merge",
        "bound": "member_counter<=3, access_counter<=1, 4 levels, conditions in {None,Some(0),Some(1)}; states over members {0,1}",
        "violating_classes": reported}));
}
