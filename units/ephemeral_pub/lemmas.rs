pub open spec fn encode_injective<T>() -> bool {
    forall|a: T, b: T| #[trigger] spec_encode(a) is Some && #[trigger] spec_encode(b) == spec_encode(a) ==> a == b
}
// two messages published by one publisher under different timestamps are never byte-identical (the timestamp is part of the
// encoded tuple); with `publish` proved to stamp strictly increasing timestamps this is the uniqueness clause of C16
//@ obligation props=C16
pub proof fn lemma_different_timestamps_give_different_bytes<M>(key: SigningKey, t1: HybridTimestamp, t2: HybridTimestamp, b1: M, b2: M)
    requires
        ht_lt(t1, t2),
        wrapped_bytes(key, t1, b1) is Some, wrapped_bytes(key, t2, b2) is Some,
        encode_injective::<(u64, VerifyingKey, Signature, Timestamp, LamportTimestamp, &M)>(),
    ensures wrapped_bytes(key, t1, b1) != wrapped_bytes(key, t2, b2),
{
    let s1 = spec_encode((MESSAGE_VERSION, spec_public(key), t1.0, t1.1, &b1));
    let s2 = spec_encode((MESSAGE_VERSION, spec_public(key), t2.0, t2.1, &b2));
    let m1 = (MESSAGE_VERSION, spec_public(key), spec_sign(key, s1->0), t1.0, t1.1, &b1);
    let m2 = (MESSAGE_VERSION, spec_public(key), spec_sign(key, s2->0), t2.0, t2.1, &b2);
    if spec_encode(m1) == spec_encode(m2) {
        assert(m1 == m2);
        assert(t1.0 == t2.0 && t1.1 == t2.1);
    }
}
