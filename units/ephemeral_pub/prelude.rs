#[derive(Clone, Copy, PartialEq, Eq, Structural)]
pub struct VerifyingKey(pub [u8; 32]);
#[derive(Clone, Copy, PartialEq, Eq, Structural)]
pub struct Signature(pub [u8; 64]);
#[derive(Clone, Copy, PartialEq, Eq, Structural)]
pub struct Topic(pub [u8; 32]);
pub struct EncodeError { pub e: u8 }
pub struct PhantomData<X> { pub g: Ghost<Option<X>> }

pub open spec fn ht_lt(a: HybridTimestamp, b: HybridTimestamp) -> bool {
    a.0.0 < b.0.0 || (a.0.0 == b.0.0 && a.1.0 < b.1.0)
}
impl Timestamp {
    #[verifier::external_body]
    pub fn now() -> (r: Self) { unimplemented!() }
}
pub assume_specification [<LamportTimestamp as core::default::Default>::default] () -> (r: LamportTimestamp)
    ensures r == LamportTimestamp(0u64);
impl PartialOrdSpecImpl for Timestamp {
    open spec fn obeys_partial_cmp_spec() -> bool { true }
    open spec fn partial_cmp_spec(&self, other: &Timestamp) -> Option<Ordering> {
        if self.0 < other.0 { Some(Ordering::Less) } else if self.0 == other.0 { Some(Ordering::Equal) } else { Some(Ordering::Greater) }
    }
}

pub uninterp spec fn spec_encode<T>(v: T) -> Option<Seq<u8>>;
#[verifier::external_body]
pub fn encode_cbor<T>(v: &T) -> (r: Result<Vec<u8>, EncodeError>)
    ensures r is Ok <==> spec_encode::<T>(*v) is Some, r is Ok ==> r->Ok_0@ == spec_encode::<T>(*v)->0
{ unimplemented!() }
impl vstd::std_specs::convert::FromSpecImpl<EncodeError> for EphemeralPublishError {
    open spec fn obeys_from_spec() -> bool { true }
    open spec fn from_spec(e: EncodeError) -> Self { EphemeralPublishError::Encode(e) }
}
impl From<EncodeError> for EphemeralPublishError { fn from(e: EncodeError) -> (r: Self) { EphemeralPublishError::Encode(e) } }

// signing key: deterministic signature function (Ed25519)
pub struct SigningKey { pub secret: [u8; 32] }
pub uninterp spec fn spec_public(k: SigningKey) -> VerifyingKey;
pub uninterp spec fn spec_sign(k: SigningKey, bytes: Seq<u8>) -> Signature;
impl SigningKey {
    #[verifier::external_body]
    pub fn verifying_key(&self) -> (r: VerifyingKey) ensures r == spec_public(*self) { unimplemented!() }
    #[verifier::external_body]
    pub fn sign(&self, bytes: &[u8]) -> (r: Signature) ensures r == spec_sign(*self, bytes@) { unimplemented!() }
}
pub struct OperationForge { pub key: SigningKey }
impl OperationForge {
    pub fn signing_key(&self) -> (r: &SigningKey) ensures *r == self.key { &self.key }
}
// gossip handle: ghost log of everything handed to the overlay
pub struct GossipHandle { pub published: Ghost<Seq<Seq<u8>>> }
pub struct GossipErr { pub e: u8 }
impl GossipHandle {
    #[verifier::external_body]
    pub fn publish(&mut self, bytes: Vec<u8>) -> (r: Result<(), GossipErr>)
        ensures r is Ok ==> final(self).published@ == old(self).published@.push(bytes@), r is Err ==> final(self).published@ == old(self).published@
    { unimplemented!() }
}
// std::sync::Mutex: exclusive access to the protected value; poisoning not modelled
pub struct PoisonError { pub p: u8 }
#[verifier::external]
impl core::fmt::Debug for PoisonError { fn fmt(&self, f: &mut core::fmt::Formatter<'_>) -> core::fmt::Result { Ok(()) } }
pub struct Mutex<T> { pub value: T }
impl<T> Mutex<T> {
    #[verifier::external_body]
    pub fn lock(&mut self) -> (r: Result<&mut T, PoisonError>)
        ensures r is Ok, *(r->Ok_0) == old(self).value, final(self).value == *final(r->Ok_0)
    { unimplemented!() }
}

// ---- specification: the bytes of a published message ------------------------------------------------------------------------
pub open spec fn wrapped_bytes<M>(key: SigningKey, ts: HybridTimestamp, body: M) -> Option<Seq<u8>> {
    let signed = spec_encode((MESSAGE_VERSION, spec_public(key), ts.0, ts.1, &body));
    if signed is None { None } else {
        spec_encode((MESSAGE_VERSION, spec_public(key), spec_sign(key, signed->0), ts.0, ts.1, &body))
    }
}
