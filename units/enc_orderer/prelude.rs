#[verifier::external_body]
pub struct Infallible { _never: () }   // std::convert::Infallible (uninhabited): opaque; no value is ever constructed by the code under contract
#[derive(Clone, Copy, PartialEq, Eq, Hash, Structural)]
pub struct OperationId(pub [u8; 32]);
#[verifier::external_body]
pub struct EncryptionMessage { _p: () }
impl EncryptionMessage {
    pub uninterp spec fn spec_id(&self) -> OperationId;
    #[verifier::external_body]
    pub fn id(&self) -> (r: OperationId) ensures r == self.spec_id() { unimplemented!() }
    // `<EncryptionMessage as ToOwned>::to_owned` on a reference = clone
    #[verifier::external_body]
    pub fn to_owned(&self) -> (r: EncryptionMessage) ensures r == *self { unimplemented!() }
}
impl Clone for EncryptionMessage {
    #[verifier::external_body]
    fn clone(&self) -> (r: Self) ensures r == *self { unimplemented!() }
}
#[verifier::external_body]
#[verifier::reject_recursive_types(N)]
#[verifier::reject_recursive_types(E)]
pub struct DiGraphMap<N, E> { p: core::marker::PhantomData<(N, E)> }
impl<N, E> Default for DiGraphMap<N, E> {
    #[verifier::external_body]
    fn default() -> (r: Self) ensures r.nodes() == Set::<N>::empty() { unimplemented!() }
}
impl<N, E> DiGraphMap<N, E> {
    pub uninterp spec fn nodes(&self) -> Set<N>;
    #[verifier::external_body]
    pub fn contains_node(&self, n: N) -> (r: bool) ensures r == self.nodes().contains(n) { unimplemented!() }
    #[verifier::external_body]
    pub fn add_node(&mut self, n: N) -> (r: N) ensures final(self).nodes() == old(self).nodes().insert(n) { unimplemented!() }
    // petgraph: "Inserts nodes a and/or b if they aren't already part of the graph"
    #[verifier::external_body]
    pub fn add_edge(&mut self, a: N, b: N, weight: E) -> (r: Option<E>) ensures final(self).nodes() == old(self).nodes().insert(a).insert(b) { unimplemented!() }
}
#[verifier::external_body]
pub fn verif_graph_heads(g: &DiGraphMap<OperationId, ()>) -> (r: Vec<OperationId>) { unimplemented!() }

// ---- contract-only VecDeque (assumed contract of the std dependency) ---------------------------
#[verifier::external_body]
#[verifier::reject_recursive_types(T)]
pub struct VecDeque<T> { inner: std::collections::VecDeque<T> }
impl<T> View for VecDeque<T> {
    type V = Seq<T>;
    uninterp spec fn view(&self) -> Seq<T>;
}
impl<T> Default for VecDeque<T> {
    #[verifier::external_body]
    fn default() -> (r: Self) ensures r@ == Seq::<T>::empty() { unimplemented!() }
}
impl<T> VecDeque<T> {
    #[verifier::external_body]
    pub fn pop_front(&mut self) -> (r: Option<T>)
        ensures
            old(self)@.len() == 0 ==> r is None && final(self)@ == old(self)@,
            old(self)@.len() > 0 ==> r == Some(old(self)@[0]) && final(self)@ == old(self)@.skip(1),
    { self.inner.pop_front() }
    #[verifier::external_body]
    pub fn push_back(&mut self, value: T)
        ensures final(self)@ == old(self)@.push(value),
    { self.inner.push_back(value) }
}

// ---- representation invariant: every queued id has a stored message -------------------------------------------------------
pub open spec fn queue_wf(y: EncryptionOrdererState) -> bool {
    forall|i: int| 0 <= i < y.queue@.len() ==> y.messages@.contains_key(#[trigger] y.queue@[i])
}
