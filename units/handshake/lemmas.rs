//@ obligation name=agreement props=C25
// When both sides run the handshake against each other and both complete, the acceptor outputs exactly the
// initiator's topic: the acceptor's stream carries what the initiator's sink accepted, in order.
pub proof fn lemma_agreement<T>(init_topic: T, init_sent: Seq<TopicHandshakeMessage<T>>, acc_pending: Seq<Result<TopicHandshakeMessage<T>, StreamErr>>, out: T)
    requires
        // initiator completed (postcondition ok_means_topic_then_done_sent, from an empty transcript)
        init_sent == Seq::<TopicHandshakeMessage<T>>::empty().push(TopicHandshakeMessage::Topic(init_topic)).push(TopicHandshakeMessage::Done),
        // the transport delivers the initiator's messages to the acceptor, in order
        acc_pending.len() >= init_sent.len(),
        forall|i: int| 0 <= i < init_sent.len() ==> #[trigger] acc_pending[i] is Ok && acc_pending[i]->Ok_0 == init_sent[i],
        // acceptor completed with output `out` (postcondition ok_outputs_exactly_the_received_topic)
        head_is(acc_pending, 0, TopicHandshakeMessage::Topic(out)),
    ensures out == init_topic,
{
    assert(init_sent[0] == TopicHandshakeMessage::Topic(init_topic));
}
