pub struct PhantomData<X> { pub g: Ghost<Option<X>> }
pub struct SendErrorShim { pub e: u8 }
pub struct StreamErr { pub e: u8 }
pub mod mpsc {
    pub use super::SendErrorShim as SendError;
    pub use super::SenderShim as Sender;
}
// event channel: opaque, may fail
pub struct SenderShim<Evt> { pub g: Ghost<Option<Evt>> }
impl<Evt> SenderShim<Evt> {
    #[verifier::external_body]
    pub fn send(&mut self, e: Evt) -> (r: Result<(), SendErrorShim>) { unimplemented!() }
    #[verifier::external_body]
    pub fn flush(&mut self) -> (r: Result<(), SendErrorShim>) { unimplemented!() }
}
#[verifier::external_body]
pub fn verif_opaque_string() -> String { unimplemented!() }

// thiserror #[from] mpsc::SendError
impl<T> vstd::std_specs::convert::FromSpecImpl<SendErrorShim> for TopicHandshakeError<T> {
    open spec fn obeys_from_spec() -> bool { true }
    open spec fn from_spec(e: SendErrorShim) -> Self { TopicHandshakeError::MpscSend(e) }
}
impl<T> From<SendErrorShim> for TopicHandshakeError<T> {
    fn from(e: SendErrorShim) -> (r: Self) { TopicHandshakeError::MpscSend(e) }
}

// ---- ghost transcripts of the transport ------------------------------------------------------------------------
pub struct GhostSink<M> { pub sent: Ghost<Seq<M>> }
impl<M> GhostSink<M> {
    pub open spec fn view(&self) -> Seq<M> { self.sent@ }
    #[verifier::external_body]
    pub fn send(&mut self, m: M) -> (r: Result<(), StreamErr>)
        ensures r is Ok ==> final(self)@ == old(self)@.push(m), r is Err ==> final(self)@ == old(self)@,
    { unimplemented!() }
    #[verifier::external_body]
    pub fn flush(&mut self) -> (r: Result<(), StreamErr>)
        ensures final(self)@ == old(self)@,
    { unimplemented!() }
}
pub struct GhostStream<M> { pub pending: Ghost<Seq<Result<M, StreamErr>>> }
impl<M> GhostStream<M> {
    pub open spec fn view(&self) -> Seq<Result<M, StreamErr>> { self.pending@ }
    // next(): the head of what the peer delivers, or None when the stream is closed
    #[verifier::external_body]
    pub fn next(&mut self) -> (r: Option<Result<M, StreamErr>>)
        ensures
            old(self)@.len() == 0 ==> r is None && final(self)@ == old(self)@,
            old(self)@.len() > 0 ==> r == Some(old(self)@[0]) && final(self)@ == old(self)@.skip(1),
    { unimplemented!() }
}
pub open spec fn lawful_clone<T: Clone>() -> bool {
    forall|a: T, b: T| #[trigger] call_ensures(T::clone, (&a,), b) ==> a == b
}

// ---- specification helpers ---------------------------------------------------------------------------------------
pub open spec fn head_is<M>(p: Seq<Result<M, StreamErr>>, i: int, m: M) -> bool {
    p.len() > i && p[i] is Ok && p[i]->Ok_0 == m
}
