// layout of the token stream of a validated header: which token sits where
pub proof fn lemma_header_layout<E: Tokenize>(h: Header<E>)
    requires shape_ok(h),
    ensures ({
        let t = header_tokens(h);
        let a = if h.payload_hash is Some { 1int } else { 0int };
        let b = if h.backlink is Some { 1int } else { 0int };
        let c = if ext_nonzero::<E>() { 1int } else { 0int };
        &&& t.len() == 5 + a + b + c
        &&& t[0] == h.version.tok() && t[1] == h.verifying_key.tok() && t[2] == (h.signature->0).tok() && t[3] == h.payload_size.tok()
        &&& (h.payload_hash is Some ==> t[4] == (h.payload_hash->0).tok())
        &&& t[4 + a] == h.seq_num.tok()
        &&& (h.backlink is Some ==> t[5 + a] == (h.backlink->0).tok())
        &&& (ext_nonzero::<E>() ==> t[5 + a + b] == h.extensions.tok())
    }),
{
}

// two validated headers with the same token stream are equal (given injective element tokens)
//@ obligation props=C02
pub proof fn lemma_header_tokens_injective<E: Tokenize>(h1: Header<E>, h2: Header<E>)
    requires shape_ok(h1), shape_ok(h2), header_tokens(h1) =~= header_tokens(h2), lawful_tok::<E>(),
        !ext_nonzero::<E>() ==> h1.extensions == h2.extensions,
    ensures h1 == h2,
{
    lemma_header_layout(h1); lemma_header_layout(h2);
    lemma_scalar_toks();
}
pub proof fn lemma_scalar_toks()
    ensures
        forall|a: u64, b: u64| #[trigger] a.tok() == #[trigger] b.tok() ==> a == b,
        forall|a: u32, b: u32| #[trigger] a.tok() == #[trigger] b.tok() ==> a == b,
        forall|a: Hash, b: Hash| #[trigger] a.tok() == #[trigger] b.tok() ==> a == b,
        forall|a: VerifyingKey, b: VerifyingKey| #[trigger] a.tok() == #[trigger] b.tok() ==> a == b,
        forall|a: Signature, b: Signature| #[trigger] a.tok() == #[trigger] b.tok() ==> a == b,
{
    assert forall|a: Hash, b: Hash| #[trigger] a.tok() == #[trigger] b.tok() implies a == b by { assert(a.0@ == b.0@); assert(a.0 =~= b.0); }
    assert forall|a: VerifyingKey, b: VerifyingKey| #[trigger] a.tok() == #[trigger] b.tok() implies a == b by { assert(a.0@ == b.0@); assert(a.0 =~= b.0); }
    assert forall|a: Signature, b: Signature| #[trigger] a.tok() == #[trigger] b.tok() implies a == b by { assert(a.0@ == b.0@); assert(a.0 =~= b.0); }
}
