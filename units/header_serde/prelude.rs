pub struct PhantomData<X> { pub g: Ghost<Option<X>> }
pub type Version = u64;
pub type SeqNum = u32;
#[derive(Clone, Copy, PartialEq, Eq, Structural)]
pub struct Hash(pub [u8; 32]);
#[derive(Clone, Copy, PartialEq, Eq, Structural)]
pub struct VerifyingKey(pub [u8; 32]);
#[derive(Clone, Copy, PartialEq, Eq, Structural)]
pub struct Signature(pub [u8; 64]);
impl Tokenize for Hash {
    open spec fn deterministic() -> bool { true }
    open spec fn tok(&self) -> Tok { Tok::Bytes(self.0@) }
    open spec fn admissible(&self, t: Tok) -> bool { t == self.tok() }
}
impl Tokenize for VerifyingKey {
    open spec fn deterministic() -> bool { true }
    open spec fn tok(&self) -> Tok { Tok::Bytes(self.0@) }
    open spec fn admissible(&self, t: Tok) -> bool { t == self.tok() }
}
impl Tokenize for Signature {
    open spec fn deterministic() -> bool { true }
    open spec fn tok(&self) -> Tok { Tok::Bytes(self.0@) }
    open spec fn admissible(&self, t: Tok) -> bool { t == self.tok() }
}
#[verifier::external_body]
pub fn verif_opaque_string_of<T>(args: T) -> String { unimplemented!() }

// size_of::<E>() > 0, and the unique value of a zero-sized E
pub uninterp spec fn ext_nonzero<E>() -> bool;
pub uninterp spec fn zst_value<E>() -> E;
impl<E> Header<E> {
    #[verifier::external_body]
    pub fn has_non_zero_sized_extensions() -> (r: bool) ensures r == ext_nonzero::<E>() { unimplemented!() }
    #[verifier::external_body]
    pub fn zero_sized_extensions() -> (r: E) requires !ext_nonzero::<E>() ensures r == zst_value::<E>() { unimplemented!() }
}

// ---- specification: the token stream of a header (a FUNCTION of the value) ------------------------------------------------------
pub open spec fn opt_tok<T: Tokenize>(o: Option<T>) -> Seq<Tok> { match o { Some(x) => seq![x.tok()], None => Seq::<Tok>::empty() } }
pub open spec fn header_tokens<E: Tokenize>(h: Header<E>) -> Seq<Tok> {
    seq![h.version.tok(), h.verifying_key.tok()] + opt_tok(h.signature) + seq![h.payload_size.tok()] + opt_tok(h.payload_hash)
        + seq![h.seq_num.tok()] + opt_tok(h.backlink) + (if ext_nonzero::<E>() { seq![h.extensions.tok()] } else { Seq::<Tok>::empty() })
}
// field presence of a header that passes validation (C01): signed, payload hash iff payload, backlink iff not the first entry
pub open spec fn shape_ok<E>(h: Header<E>) -> bool {
    h.signature is Some && (h.payload_hash is Some <==> h.payload_size > 0) && (h.backlink is Some <==> h.seq_num > 0)
}
#[verifier::external_body]
pub fn verif_opaque_string() -> String { unimplemented!() }
pub open spec fn is_ext<E>(e: E) -> bool { true }
// Option::flatten (std documentation)
pub assume_specification<T> [Option::<Option<T>>::flatten] (o: Option<Option<T>>) -> (r: Option<T>)
    ensures r == (match o { Some(Some(x)) => Some(x), _ => None::<T> });
