// ---- Borrow::borrow: the borrowed value is a function of the argument ----------------------------------
pub mod borrow_ax {
    use super::*;
    #[verifier::external_trait_specification]
    pub trait ExBorrow<Borrowed: ?Sized> {
        type ExternalTraitSpecificationFor: core::borrow::Borrow<Borrowed>;
        fn borrow(&self) -> (r: &Borrowed)
            ensures r == borrowed_ref::<Self, Borrowed>(self);
    }
    pub uninterp spec fn borrowed_ref<T: ?Sized, B: ?Sized>(x: &T) -> &B;
    // std blanket impls: `impl<T> Borrow<T> for T` and `impl<T> Borrow<T> for &T` are the identity
    pub broadcast axiom fn borrow_self<T>(x: &T)
        ensures #[trigger] borrowed_ref::<T, T>(x) == x;
    pub broadcast axiom fn borrow_ref<T>(x: &&T)
        ensures #[trigger] borrowed_ref::<&T, T>(x) == *x;
}
pub use borrow_ax::*;
broadcast use {borrow_self, borrow_ref};

