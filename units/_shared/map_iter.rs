// ---- iteration over std maps: facts about `m.iter()` entry sequences (proved from vstd's iterator specs) ----
// rem is the entry sequence of `m.iter()` (the facts vstd provides about `BTreeMap::iter().remaining()`).
pub open spec fn entries_of<K, V>(rem: Seq<(&K, &V)>, m: Map<K, V>) -> bool {
    &&& rem.no_duplicates()
    &&& rem.len() == m.len()
    &&& forall|i: int| 0 <= i < rem.len() ==> m.contains_key(*(#[trigger] rem[i]).0) && m[*rem[i].0] == *rem[i].1
    &&& forall|k: K| #[trigger] m.contains_key(k) ==> exists|i: int| 0 <= i < rem.len() && *(#[trigger] rem[i]).0 == k && *rem[i].1 == m[k]
}

pub proof fn lemma_entries_distinct<K, V>(rem: Seq<(&K, &V)>, m: Map<K, V>)
    requires entries_of(rem, m),
    ensures forall|i: int, j: int| 0 <= i < j < rem.len() ==> *(#[trigger] rem[i]).0 != *(#[trigger] rem[j]).0,
{
    assert forall|i: int, j: int| 0 <= i < j < rem.len() implies *(#[trigger] rem[i]).0 != *(#[trigger] rem[j]).0 by {
        if *rem[i].0 == *rem[j].0 {
            assert(*rem[i].1 == *rem[j].1);
            assert(rem[i] == rem[j]);
        }
    }
}

// keys visited so far by an iteration over a map
pub open spec fn visited<K, V>(h: Seq<(&K, &V)>, k: K) -> bool {
    exists|i: int| 0 <= i < h.len() && *(#[trigger] h[i]).0 == k
}
// h2 is h extended by the (new) key
pub open spec fn next_key<K, V>(h: Seq<(&K, &V)>, h2: Seq<(&K, &V)>, key: K) -> bool {
    &&& !visited(h, key)
    &&& forall|k: K| #[trigger] visited(h2, k) <==> (visited(h, k) || k == key)
}


// every key of m has been visited, and only keys of m
pub open spec fn covers<K, V>(h: Seq<(&K, &V)>, m: Map<K, V>) -> bool {
    forall|k: K| visited(h, k) <==> #[trigger] m.contains_key(k)
}

// history h is a prefix of all; the next element all[h.len()] is new: visited(h.push(x), k) <==> visited(h, k) || k == x.0,
// and x.0 itself has not been visited when keys are distinct.
pub proof fn lemma_visited_next<K, V>(h: Seq<(&K, &V)>, all: Seq<(&K, &V)>)
    requires
        h.len() < all.len(),
        forall|i: int| 0 <= i < h.len() ==> h[i] == all[i],
        forall|i: int, j: int| 0 <= i < j < all.len() ==> *(#[trigger] all[i]).0 != *(#[trigger] all[j]).0,
    ensures
        !visited(h, *all[h.len() as int].0),
        forall|k: K| visited(h.push(all[h.len() as int]), k) <==> (visited(h, k) || k == *all[h.len() as int].0),
{
    let x = all[h.len() as int];
    let h2 = h.push(x);
    if visited(h, *x.0) {
        let i = choose|i: int| 0 <= i < h.len() && *(#[trigger] h[i]).0 == *x.0;
        assert(all[i] == h[i]);
    }
    assert forall|k: K| visited(h2, k) <==> (visited(h, k) || k == *x.0) by {
        if visited(h2, k) {
            let i = choose|i: int| 0 <= i < h2.len() && *(#[trigger] h2[i]).0 == k;
            if i < h.len() { assert(h[i] == h2[i]); }
        }
        if visited(h, k) {
            let i = choose|i: int| 0 <= i < h.len() && *(#[trigger] h[i]).0 == k;
            assert(h2[i] == h[i]);
        }
        if k == *x.0 { assert(h2[h.len() as int] == x); }
    }
}

pub proof fn lemma_visited_all<K, V>(rem: Seq<(&K, &V)>, m: Map<K, V>)
    requires entries_of(rem, m),
    ensures covers(rem, m),
{
    assert forall|k: K| visited(rem, k) <==> #[trigger] m.contains_key(k) by {
        if visited(rem, k) {
            let i = choose|i: int| 0 <= i < rem.len() && *(#[trigger] rem[i]).0 == k;
        }
        if m.contains_key(k) {
            let i = choose|i: int| 0 <= i < rem.len() && *(#[trigger] rem[i]).0 == k && *rem[i].1 == m[k];
        }
    }
}

