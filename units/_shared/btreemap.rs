// ---- assumed contracts of std::collections::BTreeMap pieces that vstd does not specify ----------
// (needs #![feature(allocator_api)], uses: std::collections::BTreeMap, std::collections::btree_map::Entry,
//  std::alloc::Allocator, vstd::std_specs::cmp::*, vstd::std_specs::iter::*)
#[verifier::external_type_specification]
#[verifier::external_body]
#[verifier::reject_recursive_types(K)]
#[verifier::reject_recursive_types(V)]
#[verifier::reject_recursive_types(A)]
pub struct ExEntry<'a, K: 'a, V: 'a, A: Allocator + Clone>(Entry<'a, K, V, A>);

pub uninterp spec fn entry_key<'a, K, V, A: Allocator + Clone>(e: Entry<'a, K, V, A>) -> K;
pub uninterp spec fn entry_before<'a, K, V, A: Allocator + Clone>(e: Entry<'a, K, V, A>) -> Map<K, V>;
pub uninterp spec fn entry_final<'a, K, V, A: Allocator + Clone>(e: Entry<'a, K, V, A>) -> Map<K, V>;

// m.entry(k): a handle on key k of m; the map's final value is determined by what is done with the handle.
pub assume_specification<'a, K: Ord, V, A: Allocator + Clone> [BTreeMap::<K, V, A>::entry] (m: &'a mut BTreeMap<K, V, A>, key: K) -> (e: Entry<'a, K, V, A>)
    ensures
        entry_key(e) == key,
        entry_before(e) == old(m)@,
        entry_final(e) == final(m)@,
;

pub mod btree_ax {
    use super::*;
    pub uninterp spec fn default_of<V>() -> V;
    // BTreeMap::default() is the empty map.
    pub broadcast axiom fn default_btreemap_is_empty<K, V>()
        ensures (#[trigger] default_of::<BTreeMap<K, V>>())@ == Map::<K, V>::empty();

    // `a == b` on BTreeMaps (derived from lawful key/value equality) is equality of the views.
    pub broadcast axiom fn btreemap_eq<K: PartialEq, V: PartialEq, A: Allocator + Clone>(a: BTreeMap<K, V, A>, b: BTreeMap<K, V, A>)
        ensures #[trigger] a.eq_spec(&b) == (a@ == b@);
    pub broadcast axiom fn btreemap_obeys_eq<K: PartialEq, V: PartialEq, A: Allocator + Clone>()
        ensures #[trigger] <BTreeMap<K, V, A> as PartialEqSpec>::obeys_eq_spec();

    // Collecting a sequence of pairs into a BTreeMap inserts them in order (later pairs win).
    pub open spec fn seq_to_map<K, V>(s: Seq<(K, V)>) -> Map<K, V>
        decreases s.len()
    {
        if s.len() == 0 { Map::empty() } else { seq_to_map(s.drop_last()).insert(s.last().0, s.last().1) }
    }
    pub broadcast axiom fn btreemap_from_iter<K: Ord, V>(s: Seq<(K, V)>, r: BTreeMap<K, V>)
        ensures #[trigger] <BTreeMap<K, V> as FromIteratorSpec<(K, V)>>::from_iter_ensures(s, r) ==> r@ == seq_to_map(s);
}
pub use btree_ax::*;
broadcast use {default_btreemap_is_empty, btreemap_eq, btreemap_obeys_eq, btreemap_from_iter};

// e.or_default(): the existing value, or V::default() inserted; the returned &mut V is the slot in the map.
pub assume_specification<'a, K: Ord, V: Default, A: Allocator + Clone> [Entry::<'a, K, V, A>::or_default] (e: Entry<'a, K, V, A>) -> (r: &'a mut V)
    ensures
        entry_before(e).contains_key(entry_key(e)) ==> *r == entry_before(e)[entry_key(e)],
        !entry_before(e).contains_key(entry_key(e)) ==> *r == default_of::<V>(),
        entry_final(e) == entry_before(e).insert(entry_key(e), *final(r)),
;


// x.to_owned() for T: Clone is x.clone().
pub assume_specification<T: Clone> [<T as std::borrow::ToOwned>::to_owned] (a: &T) -> (r: T)
    ensures call_ensures(T::clone, (a,), r);

// T::clone returns an equal value (type invariant of key types).
pub open spec fn lawful_clone<T: Clone>() -> bool {
    forall|a: T, b: T| #[trigger] call_ensures(T::clone, (&a,), b) ==> a == b
}

// ---- proved facts about seq_to_map and about BTreeMap::iter() ------------------------------------
pub open spec fn distinct_keys<K, V>(s: Seq<(K, V)>) -> bool {
    forall|i: int, j: int| 0 <= i < j < s.len() ==> (#[trigger] s[i]).0 != (#[trigger] s[j]).0
}

pub proof fn lemma_seq_to_map_dom<K, V>(s: Seq<(K, V)>, k: K)
    ensures seq_to_map(s).contains_key(k) <==> exists|i: int| 0 <= i < s.len() && (#[trigger] s[i]).0 == k,
    decreases s.len()
{
    if s.len() > 0 {
        let p = s.drop_last();
        lemma_seq_to_map_dom(p, k);
        if seq_to_map(p).contains_key(k) {
            let i = choose|i: int| 0 <= i < p.len() && (#[trigger] p[i]).0 == k;
            assert(s[i].0 == k);
        }
        if k == s.last().0 { assert(s[s.len() - 1].0 == k); }
        if exists|i: int| 0 <= i < s.len() && (#[trigger] s[i]).0 == k {
            let i = choose|i: int| 0 <= i < s.len() && (#[trigger] s[i]).0 == k;
            if i < p.len() { assert(p[i].0 == k); }
        }
    }
}

pub proof fn lemma_seq_to_map_val<K, V>(s: Seq<(K, V)>, i: int)
    requires distinct_keys(s), 0 <= i < s.len(),
    ensures seq_to_map(s)[s[i].0] == s[i].1, seq_to_map(s).contains_key(s[i].0)
    decreases s.len()
{
    let p = s.drop_last();
    assert forall|a: int, b: int| 0 <= a < b < p.len() implies (#[trigger] p[a]).0 != (#[trigger] p[b]).0 by { assert(p[a] == s[a]); assert(p[b] == s[b]); }
    if i < p.len() { lemma_seq_to_map_val(p, i); assert(p[i] == s[i]); assert(s[i].0 != s[s.len() - 1].0); }
}

// `m.iter().map(f).collect::<BTreeMap<_,_>>()` where f keeps the key: same domain, value = f's value.
pub proof fn lemma_collected<K, V, W>(m: Map<K, V>, rem: Seq<(&K, &V)>, s: Seq<(K, W)>, r: Map<K, W>)
    requires
        entries_of(rem, m),
        s.len() == rem.len(),
        forall|i: int| 0 <= i < s.len() ==> (#[trigger] s[i]).0 == *rem[i].0,
        r == seq_to_map(s),
    ensures
        r.dom() =~= m.dom(),
        forall|i: int| 0 <= i < s.len() ==> r[(#[trigger] s[i]).0] == s[i].1,
{
    lemma_entries_distinct(rem, m);
    assert(distinct_keys(s)) by {
        assert forall|i: int, j: int| 0 <= i < j < s.len() implies (#[trigger] s[i]).0 != (#[trigger] s[j]).0 by {
            assert(*rem[i].0 != *rem[j].0);
        }
    }
    assert forall|k: K| r.contains_key(k) <==> m.contains_key(k) by {
        lemma_seq_to_map_dom(s, k);
        if m.contains_key(k) {
            let i = choose|i: int| 0 <= i < rem.len() && *(#[trigger] rem[i]).0 == k && *rem[i].1 == m[k];
            assert(s[i].0 == k);
        }
        if r.contains_key(k) {
            let i = choose|i: int| 0 <= i < s.len() && (#[trigger] s[i]).0 == k;
            assert(*rem[i].0 == k);
        }
    }
    assert forall|i: int| 0 <= i < s.len() implies r[(#[trigger] s[i]).0] == s[i].1 by { lemma_seq_to_map_val(s, i); }
}

// ---- R16 helper: `m.iter().map(f).collect::<BTreeMap<_, _>>()` (assumed std semantics) -----------------
// Every output entry is f(some input entry); every input entry contributes its key to the output.
#[verifier::external_body]
pub fn verif_iter_map_collect<K, V, K2: Ord, W, F: Fn((&K, &V)) -> (K2, W)>(m: &BTreeMap<K, V>, f: F) -> (r: BTreeMap<K2, W>)
    requires
        forall|k: K| #[trigger] m@.contains_key(k) ==> call_requires(f, ((&k, &m@[k]),)),
    ensures
        forall|k2: K2| #[trigger] r@.contains_key(k2) ==> exists|k: K| m@.contains_key(k) && #[trigger] call_ensures(f, ((&k, &m@[k]),), (k2, r@[k2])),
        forall|k: K| #[trigger] m@.contains_key(k) ==> exists|kw: (K2, W)| #[trigger] call_ensures(f, ((&k, &m@[k]),), kw) && r@.contains_key(kw.0),
{
    m.iter().map(f).collect()
}
