// ---- small std functions vstd does not specify (documented behaviour, assumed) ---------------------
pub assume_specification<T: Copy> [Option::<&T>::copied] (o: Option<&T>) -> (r: Option<T>)
    ensures r == (match o { Some(x) => Some(*x), None => None::<T> });
pub assume_specification<T> [bool::then_some] (b: bool, t: T) -> (r: Option<T>)
    ensures r == (if b { Some(t) } else { None::<T> });
