// ---- small std functions vstd does not specify (documented behaviour, assumed) ---------------------
pub assume_specification<T: Copy> [Option::<&T>::copied] (o: Option<&T>) -> (r: Option<T>)
    ensures r == (match o { Some(x) => Some(*x), None => None::<T> });
pub assume_specification<T> [bool::then_some] (b: bool, t: T) -> (r: Option<T>)
    ensures r == (if b { Some(t) } else { None::<T> });
// Option::map_or(default, f): default for None, f(x) for Some(x) (std documentation)
pub assume_specification<T, U, F: FnOnce(T) -> U> [Option::<T>::map_or] (o: Option<T>, default: U, f: F) -> (r: U)
    requires o is Some ==> call_requires(f, (o->0,)),
    ensures o is None ==> r == default, o is Some ==> call_ensures(f, (o->0,), r);
// Option::is_none_or(f): true for None, f(x) for Some(x) (std documentation)
pub assume_specification<T, F: FnOnce(T) -> bool> [Option::<T>::is_none_or] (o: Option<T>, f: F) -> (r: bool)
    requires o is Some ==> call_requires(f, (o->0,)),
    ensures o is None ==> r, o is Some ==> call_ensures(f, (o->0,), r);
// Option::is_some_and(f): false for None, f(x) for Some(x)
pub assume_specification<T, F: FnOnce(T) -> bool> [Option::<T>::is_some_and] (o: Option<T>, f: F) -> (r: bool)
    requires o is Some ==> call_requires(f, (o->0,)),
    ensures o is None ==> !r, o is Some ==> call_ensures(f, (o->0,), r);
// u32::abs_diff / u64::abs_diff: the absolute difference (std documentation)
pub assume_specification [u32::abs_diff] (a: u32, b: u32) -> (r: u32)
    ensures r == (if a >= b { a - b } else { b - a });
pub assume_specification [u64::abs_diff] (a: u64, b: u64) -> (r: u64)
    ensures r == (if a >= b { a - b } else { b - a });
