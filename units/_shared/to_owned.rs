// x.to_owned() for T: Clone is x.clone().
pub assume_specification<T: Clone> [<T as std::borrow::ToOwned>::to_owned] (a: &T) -> (r: T)
    ensures call_ensures(T::clone, (a,), r);

// T::clone returns an equal value (type invariant of plain-data types).
pub open spec fn lawful_clone<T: Clone>() -> bool {
    forall|a: T, b: T| #[trigger] call_ensures(T::clone, (&a,), b) ==> a == b
}
