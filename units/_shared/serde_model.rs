// ---- serde data model (contract-only) -------------------------------------------------------------------------------------
// one serde data-model value
pub enum Tok { U(nat), Bool(bool), Bytes(Seq<u8>), HashSeq(Seq<Seq<u8>>), Null, Other(int, Seq<int>) }
// what `impl Serialize for T` emits for one element / what `impl Deserialize for T` accepts
pub trait Tokenize: Sized {
    // the token is a function of the value (deterministic encoding) ...
    spec fn deterministic() -> bool;
    spec fn tok(&self) -> Tok;
    // ... or, for unordered collections, any token satisfying `admissible`
    spec fn admissible(&self, t: Tok) -> bool;
}
impl<'a, T: Tokenize> Tokenize for &'a T {
    open spec fn deterministic() -> bool { T::deterministic() }
    open spec fn tok(&self) -> Tok { (**self).tok() }
    open spec fn admissible(&self, t: Tok) -> bool { (**self).admissible(t) }
}
impl Tokenize for u16 {
    open spec fn deterministic() -> bool { true }
    open spec fn tok(&self) -> Tok { Tok::U(*self as nat) }
    open spec fn admissible(&self, t: Tok) -> bool { t == self.tok() }
}
impl Tokenize for u32 {
    open spec fn deterministic() -> bool { true }
    open spec fn tok(&self) -> Tok { Tok::U(*self as nat) }
    open spec fn admissible(&self, t: Tok) -> bool { t == self.tok() }
}
impl Tokenize for u64 {
    open spec fn deterministic() -> bool { true }
    open spec fn tok(&self) -> Tok { Tok::U(*self as nat) }
    open spec fn admissible(&self, t: Tok) -> bool { t == self.tok() }
}
// lawfulness of a deterministic element type: different values have different tokens, and `admissible` is `== tok()`
pub open spec fn lawful_tok<T: Tokenize>() -> bool {
    &&& T::deterministic()
    &&& forall|a: T, t: Tok| #[trigger] a.admissible(t) <==> t == a.tok()
    &&& forall|a: T, b: T| #[trigger] a.tok() == #[trigger] b.tok() ==> a == b
}

pub trait SerdeError: Sized {
    fn custom<M>(msg: M) -> Self;
}
pub trait SerializeSeq {
    type Ok;
    type Error;
    spec fn tokens(&self) -> Seq<Tok>;
    spec fn declared(&self) -> Option<usize>;
    spec fn ok_tokens(ok: Self::Ok) -> Seq<Tok>;
    fn serialize_element<T: Tokenize>(&mut self, value: &T) -> (r: Result<(), Self::Error>)
        ensures final(self).declared() == old(self).declared(),
            r is Ok ==> final(self).tokens().len() == old(self).tokens().len() + 1
                && final(self).tokens().subrange(0, old(self).tokens().len() as int) == old(self).tokens()
                && value.admissible(final(self).tokens()[old(self).tokens().len() as int])
                && (T::deterministic() ==> final(self).tokens()[old(self).tokens().len() as int] == value.tok());
    // definite-length sequences must be closed with exactly the declared number of elements
    fn end(self) -> (r: Result<Self::Ok, Self::Error>)
        requires self.declared() is Some ==> self.tokens().len() == self.declared()->0,
        ensures r is Ok ==> Self::ok_tokens(r->Ok_0) == self.tokens();
}
pub trait Serializer {
    type Ok;
    type Error;
    type SerializeSeq: SerializeSeq<Ok = Self::Ok, Error = Self::Error>;
    fn serialize_seq(self, len: Option<usize>) -> (r: Result<Self::SerializeSeq, Self::Error>)
        ensures r is Ok ==> (r->Ok_0).tokens().len() == 0 && (r->Ok_0).declared() == len;
}
pub trait SeqAccess {
    type Error: SerdeError;
    spec fn tokens(&self) -> Seq<Tok>;   // what is left to read
    // next_element::<T>(): None at the end of the sequence; otherwise consumes the head token and returns a value it denotes
    // (Err if the token does not denote a T)
    fn next_element<T: Tokenize>(&mut self) -> (r: Result<Option<T>, Self::Error>)
        ensures
            old(self).tokens().len() == 0 ==> r is Ok && r->Ok_0 is None && final(self).tokens() == old(self).tokens(),
            old(self).tokens().len() > 0 && r is Ok ==> r->Ok_0 is Some && (r->Ok_0->0).admissible(old(self).tokens()[0]) && final(self).tokens() == old(self).tokens().skip(1),
            old(self).tokens().len() > 0 && (exists|v: T| #[trigger] v.admissible(old(self).tokens()[0])) ==> r is Ok;
    fn size_hint(&self) -> (r: Option<usize>)
        ensures r is Some ==> r->0 == self.tokens().len();
}
// serde's `impl Serialize/Deserialize for Option<T>`: None is the null token, Some(x) is x's token
impl<T: Tokenize> Tokenize for Option<T> {
    open spec fn deterministic() -> bool { T::deterministic() }
    open spec fn tok(&self) -> Tok { match *self { Some(x) => x.tok(), None => Tok::Null } }
    open spec fn admissible(&self, t: Tok) -> bool { match *self { Some(x) => x.admissible(t), None => t == Tok::Null } }
}
