// ---- std::time::Duration viewed as a number of nanoseconds (assumed, documented std behaviour) ----
pub mod dur_ax {
    use super::*;
    pub uninterp spec fn dur_nanos(d: Duration) -> nat;
    pub open spec fn DUR_MAX_NANOS() -> nat { (u64::MAX as nat) * 1_000_000_000 + 999_999_999 }

    pub broadcast axiom fn dur_nanos_bounded(d: Duration)
        ensures #[trigger] dur_nanos(d) <= DUR_MAX_NANOS();
    // Ordering of Duration = ordering of its length.
    pub broadcast axiom fn duration_ord(a: Duration, b: Duration)
        ensures
            #[trigger] a.partial_cmp_spec(&b) == (if dur_nanos(a) < dur_nanos(b) { Some(Ordering::Less) } else if dur_nanos(a) == dur_nanos(b) { Some(Ordering::Equal) } else { Some(Ordering::Greater) });
    pub broadcast axiom fn duration_obeys_ord()
        ensures #[trigger] <Duration as PartialOrdSpec>::obeys_partial_cmp_spec();
    pub broadcast axiom fn duration_cmp(a: Duration, b: Duration)
        ensures
            #[trigger] a.cmp_spec(&b) == (if dur_nanos(a) < dur_nanos(b) { Ordering::Less } else if dur_nanos(a) == dur_nanos(b) { Ordering::Equal } else { Ordering::Greater });
    pub broadcast axiom fn duration_obeys_cmp()
        ensures #[trigger] <Duration as OrdSpec>::obeys_cmp_spec();
    // `a + b` / `a += b` panic on overflow of the representable range: that is the precondition.
    pub broadcast axiom fn duration_add_req(a: Duration, b: Duration)
        ensures #[trigger] a.add_req(b) == (dur_nanos(a) + dur_nanos(b) <= DUR_MAX_NANOS());
    pub broadcast axiom fn duration_add_spec(a: Duration, b: Duration)
        ensures dur_nanos(#[trigger] a.add_spec(b)) == dur_nanos(a) + dur_nanos(b);
    pub broadcast axiom fn duration_obeys_add()
        ensures #[trigger] <Duration as AddSpec>::obeys_add_spec();
    pub broadcast axiom fn duration_add_assign_req(a: Duration, b: Duration)
        ensures #[trigger] a.add_assign_req(b) == (dur_nanos(a) + dur_nanos(b) <= DUR_MAX_NANOS());
    pub broadcast axiom fn duration_add_assign_spec(a: Duration, b: Duration)
        ensures dur_nanos(*(#[trigger] a.add_assign_spec(b))) == dur_nanos(a) + dur_nanos(b);
    pub broadcast axiom fn duration_obeys_add_assign()
        ensures #[trigger] <Duration as AddAssignSpec>::obeys_add_assign_spec();
}
pub use dur_ax::*;
broadcast use {dur_nanos_bounded, duration_ord, duration_obeys_ord, duration_cmp, duration_obeys_cmp, duration_add_req,
    duration_add_spec, duration_obeys_add, duration_add_assign_req, duration_add_assign_spec, duration_obeys_add_assign};

pub open spec fn dur_millis(d: Duration) -> nat { dur_nanos(d) / 1_000_000 }

pub assume_specification [Duration::from_millis] (ms: u64) -> (r: Duration)
    ensures dur_nanos(r) == (ms as nat) * 1_000_000;
pub assume_specification [Duration::from_secs] (s: u64) -> (r: Duration)
    ensures dur_nanos(r) == (s as nat) * 1_000_000_000;
pub assume_specification [Duration::as_millis] (d: &Duration) -> (r: u128)
    ensures r as nat == dur_nanos(*d) / 1_000_000;
pub assume_specification [<Duration as core::default::Default>::default] () -> (r: Duration)
    ensures dur_nanos(r) == 0;
