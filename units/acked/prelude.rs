pub trait Author: Clone + Ord {}
pub trait LogIdTrait: Clone + Ord {}
pub trait Extensions_ {}

// height of (author, log) in a state vector, if known
pub open spec fn hget<A, L>(m: Map<A, BTreeMap<L, SeqNum>>, a: A, l: L) -> Option<SeqNum> {
    if m.contains_key(a) && m[a]@.contains_key(l) { Some(m[a]@[l]) } else { None }
}

// ---- plain data shims ------------------------------------------------------------------------------------------------
#[derive(Clone, Copy, PartialEq, Eq, PartialOrd, Ord, Structural)]
pub struct Hash(pub [u8; 32]);
#[derive(Clone, Copy, PartialEq, Eq, PartialOrd, Ord, Structural)]
pub struct VerifyingKey(pub [u8; 32]);
#[derive(Clone, Copy, PartialEq, Eq)]
pub struct Signature(pub [u8; 64]);
#[derive(Clone, Copy, PartialEq, Eq, Structural)]
pub struct Topic(pub [u8; 32]);
#[derive(Clone, Copy, PartialEq, Eq, PartialOrd, Ord, Structural)]
pub struct LogId(pub Hash);
impl Author for VerifyingKey {}
impl LogIdTrait for LogId {}
pub struct Extensions { pub opaque: u64 }
pub uninterp spec fn ext_log_id(e: Extensions) -> LogId;
pub uninterp spec fn log_of_topic(t: Topic) -> LogId;
impl Extensions {
    #[verifier::external_body]
    pub fn log_id(&self) -> (r: LogId) ensures r == ext_log_id(*self) { unimplemented!() }
}
impl LogId {
    #[verifier::external_body]
    pub fn from_topic(topic: Topic) -> (r: LogId) ensures r == log_of_topic(topic) { unimplemented!() }
}
pub type Version = u64;
pub struct SqliteError { pub e: u8 }
pub struct AcquireError { pub e: u8 }
pub struct SemaphorePermit { pub p: u8 }
pub struct Semaphore { pub s: u8 }
impl Semaphore {
    // tokio::sync::Semaphore::acquire: opaque (mutual exclusion between tasks is not modelled)
    #[verifier::external_body]
    pub fn acquire(&self) -> (r: Result<SemaphorePermit, AcquireError>) { unimplemented!() }
}
impl vstd::std_specs::convert::FromSpecImpl<SqliteError> for AckedError {
    open spec fn obeys_from_spec() -> bool { true }
    open spec fn from_spec(e: SqliteError) -> Self { AckedError::Store(e) }
}
impl From<SqliteError> for AckedError { fn from(e: SqliteError) -> (r: Self) { AckedError::Store(e) } }

// ---- contract-only cursor store (assumed contract of p2panda-store: CursorStore + Transaction on SqliteStore) ----------------
pub type CursorT = Cursor<VerifyingKey, LogId>;
pub struct TransactionPermit { pub p: u8 }
pub struct SqliteStore { pub handle: u64 }
impl SqliteStore {
    pub uninterp spec fn committed(&self) -> Map<String, CursorT>;   // durable cursors by name
    pub uninterp spec fn txview(&self) -> Map<String, CursorT>;      // state seen inside the open transaction
    pub uninterp spec fn in_tx(&self) -> bool;

    #[verifier::external_body]
    pub fn begin(&mut self) -> (r: Result<TransactionPermit, SqliteError>)
        requires !old(self).in_tx(),
        ensures final(self).committed() == old(self).committed(), final(self).local_heights() == old(self).local_heights(),
            r is Ok ==> final(self).in_tx() && final(self).txview() == old(self).committed(),
            r is Err ==> !final(self).in_tx(),
    { unimplemented!() }
    #[verifier::external_body]
    pub fn commit(&mut self, permit: TransactionPermit) -> (r: Result<(), SqliteError>)
        requires old(self).in_tx(),
        ensures !final(self).in_tx(), final(self).local_heights() == old(self).local_heights(),
            r is Ok ==> final(self).committed() == old(self).txview(),
            r is Err ==> final(self).committed() == old(self).committed(),
    { unimplemented!() }
    // CursorStore::get_cursor outside a transaction: the committed cursor of that name
    #[verifier::external_body]
    pub fn get_cursor(&mut self, name: &String) -> (r: Result<Option<CursorT>, SqliteError>)
        requires !old(self).in_tx(),
        ensures final(self).committed() == old(self).committed(), !final(self).in_tx(), final(self).local_heights() == old(self).local_heights(),
            r is Ok ==> r->Ok_0 == (if old(self).committed().contains_key(*name) { Some(old(self).committed()[*name]) } else { None::<CursorT> }),
    { unimplemented!() }
    // CursorStore::set_cursor inside a transaction: upsert under the cursor's own name
    #[verifier::external_body]
    pub fn set_cursor(&mut self, cursor: &CursorT) -> (r: Result<(), SqliteError>)
        requires old(self).in_tx(),
        ensures final(self).in_tx(), final(self).committed() == old(self).committed(), final(self).local_heights() == old(self).local_heights(),
            r is Ok ==> final(self).txview() == old(self).txview().insert(cursor.name, *cursor),
            r is Err ==> final(self).txview() == old(self).txview(),
    { unimplemented!() }
}

impl<A: Author, L: LogIdTrait> Cursor<A, L> {
    // Cursor::new(name, state): contract-only constructor (the real one copies `name.as_ref().to_string()` and moves `state`)
    #[verifier::external_body]
    pub fn new(name: &String, state: LogHeights<A, L>) -> (r: Self)
        ensures r.name == *name, r.state == state
    { unimplemented!() }
}
// `<&T as Borrow<T>>::borrow` is the identity
pub fn verif_borrow_identity<T>(x: &T) -> (r: &T) ensures r == x { x }
// height of (a, l) in the persisted cursor `name` (None if there is no such cursor or no such log)
pub open spec fn persisted_height(m: Map<String, CursorT>, name: String, a: VerifyingKey, l: LogId) -> Option<SeqNum> {
    if m.contains_key(name) { hget(m[name].state@, a, l) } else { None }
}

// ---- C15 kernel: which operations are replayed when a stream is re-opened -------------------------------------------------------
pub type Rng = (Option<SeqNum>, Option<SeqNum>);
pub open spec fn rget<A, L>(m: Map<A, BTreeMap<L, Rng>>, a: A, l: L) -> Option<Rng> {
    if m.contains_key(a) && m[a]@.contains_key(l) { Some(m[a]@[l]) } else { None }
}
// the acked cursor is missing the log or is behind what is stored
pub open spec fn need<A, L>(local: Map<A, BTreeMap<L, SeqNum>>, remote: Map<A, BTreeMap<L, SeqNum>>, a: A, l: L) -> bool {
    hget(local, a, l) is Some && (hget(remote, a, l) is None || hget(remote, a, l)->0 < hget(local, a, l)->0)
}
pub open spec fn expected<A, L>(local: Map<A, BTreeMap<L, SeqNum>>, remote: Map<A, BTreeMap<L, SeqNum>>, a: A, l: L) -> Option<Rng> {
    if need(local, remote, a, l) { Some((hget(remote, a, l), hget(local, a, l))) } else { None }
}
impl<A: Author, L: LogIdTrait> Cursor<A, L> {
    // contract of the real Cursor::compare, proved in unit logs (C06): the diff of `other` against the cursor's own state
    #[verifier::external_body]
    pub fn compare(&self, other: &LogHeights<A, L>) -> (r: LogRanges<A, L>)
        ensures forall|a: A, l: L| rget(r@, a, l) == expected(other@, self.state@, a, l)
    { unimplemented!() }
}
impl SqliteStore {
    // what the log store holds for the logs of this stream's topic (heights per author and log): SQL, not verified here
    pub uninterp spec fn local_heights(&self) -> Map<VerifyingKey, BTreeMap<LogId, SeqNum>>;
    // the heights the log store holds for the given logs of one author (None: none of them is stored): SQL, not verified here
    pub uninterp spec fn stored_heights(&self, author: VerifyingKey, logs: Seq<LogId>) -> Option<BTreeMap<LogId, SeqNum>>;
    // LogStore::get_log_heights (one query per author), contract-only
    #[verifier::external_body]
    pub fn get_log_heights_of(&self, author: &VerifyingKey, logs: &Vec<LogId>) -> (r: Result<Option<BTreeMap<LogId, SeqNum>>, SqliteError>)
        ensures r is Ok ==> r->Ok_0 == self.stored_heights(*author, logs@)
    { unimplemented!() }
    // TopicStore::resolve: the (author, logs) associated with the topic; does not touch cursors. local_heights (the replica's
    // heights for the topic) is by definition the stored heights of exactly these logs.
    #[verifier::external_body]
    pub fn resolve(&mut self, topic: &Topic) -> (r: Result<Logs, SqliteError>)
        requires !old(self).in_tx(),
        ensures final(self).committed() == old(self).committed(), !final(self).in_tx(), final(self).local_heights() == old(self).local_heights(),
            r is Ok ==> is_heights_for(final(self), (r->Ok_0)@, final(self).local_heights()),
    { unimplemented!() }
}
// for every given author with stored logs, exactly the stored heights; authors without stored logs are absent
pub open spec fn is_heights_for(store: &SqliteStore, logs: Map<VerifyingKey, Vec<LogId>>, r: Map<VerifyingKey, BTreeMap<LogId, SeqNum>>) -> bool {
    &&& forall|a: VerifyingKey| #[trigger] r.contains_key(a) <==> logs.contains_key(a) && store.stored_heights(a, logs[a]@) is Some
    &&& forall|a: VerifyingKey| #[trigger] r.contains_key(a) ==> Some(r[a]) == store.stored_heights(a, logs[a]@)
}
pub open spec fn heights_so_far(store: &SqliteStore, logs: Map<VerifyingKey, Vec<LogId>>, h: Seq<(&VerifyingKey, &Vec<LogId>)>, r: Map<VerifyingKey, BTreeMap<LogId, SeqNum>>) -> bool {
    &&& forall|a: VerifyingKey| #[trigger] r.contains_key(a) <==> visited(h, a) && store.stored_heights(a, logs[a]@) is Some
    &&& forall|a: VerifyingKey| #[trigger] r.contains_key(a) ==> Some(r[a]) == store.stored_heights(a, logs[a]@)
}
#[verifier::external_body]
pub fn verif_name_differs(c: &CursorT, name: &String) -> (r: bool) ensures r == (c.name != *name) { unimplemented!() }
#[verifier::external_body]
pub fn verif_opaque_string() -> String { unimplemented!() }
// the acknowledged heights persisted for this stream (empty if no cursor was stored yet)
pub open spec fn acked_heights(m: Map<String, CursorT>, name: String) -> Map<VerifyingKey, BTreeMap<LogId, SeqNum>> {
    if m.contains_key(name) { m[name].state@ } else { Map::<VerifyingKey, BTreeMap<LogId, SeqNum>>::empty() }
}
