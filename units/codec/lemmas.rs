// functional reading of decode's postcondition (what a decode call does to the buffer)
pub enum Step<M> { Wait, TooLarge, Garbage, Item(M, Seq<u8>) }
pub open spec fn decode_spec<M>(src: Seq<u8>, max: nat) -> Step<M> {
    if src.len() < 4 { Step::Wait }
    else if frame_len_of(src) > max { Step::TooLarge }
    else if src.len() < 4 + frame_len_of(src) { Step::Wait }
    else { match de::<M>(src.subrange(4, 4 + frame_len_of(src) as int)) { Some(m) => Step::Item(m, src.skip(4 + frame_len_of(src) as int)), None => Step::Garbage } }
}

//@ obligation name=frame_then_rest_decodes_first_message props=C26
// A buffer that starts with an encoded frame decodes exactly that message and leaves exactly the rest —
// whatever follows (further frames, or a partial frame of the next chunk).
pub proof fn lemma_decode_frame<M>(m: M, rest: Seq<u8>, max: nat)
    requires ser(m).len() <= max, max <= u32::MAX,
    ensures decode_spec::<M>(frame(m) + rest, max) == Step::Item(m, rest),
{
    broadcast use {be_len, be_roundtrip, de_ser};
    let n = ser(m).len();
    let src = frame(m) + rest;
    assert(src.subrange(0, 4) =~= be_bytes(n as u32));
    assert(frame_len_of(src) == n);
    assert(src.subrange(4, 4 + n as int) =~= ser(m));
    assert(src.skip(4 + n as int) =~= rest);
}

//@ obligation name=proper_prefix_of_a_frame_waits props=C26
// Any proper prefix of a single frame (any chunk boundary inside it) yields "not yet" and consumes nothing.
pub proof fn lemma_prefix_waits<M>(m: M, k: int, max: nat)
    requires ser(m).len() <= max, max <= u32::MAX, 0 <= k < frame(m).len(),
    ensures decode_spec::<M>(frame(m).subrange(0, k), max) == Step::<M>::Wait,
{
    broadcast use {be_len, be_roundtrip};
    let n = ser(m).len();
    let src = frame(m).subrange(0, k);
    if k >= 4 {
        assert(src.subrange(0, 4) =~= be_bytes(n as u32));
        assert(frame_len_of(src) == n);
    }
}

//@ obligation name=stream_of_frames_decodes_in_order props=C26
// The concatenation of the frames of m_1 .. m_k (split into chunks in any way, since decode only looks at the
// accumulated buffer) decodes to exactly m_1 .. m_k in order.
pub open spec fn frames<M>(ms: Seq<M>) -> Seq<u8>
    decreases ms.len()
{
    if ms.len() == 0 { Seq::empty() } else { frame(ms[0]) + frames(ms.skip(1)) }
}
pub open spec fn decode_all<M>(src: Seq<u8>, max: nat, fuel: nat) -> Seq<M>
    decreases fuel
{
    if fuel == 0 { Seq::empty() } else {
        match decode_spec::<M>(src, max) { Step::Item(m, rest) => seq![m] + decode_all::<M>(rest, max, (fuel - 1) as nat), _ => Seq::empty() }
    }
}
pub proof fn lemma_stream_roundtrip<M>(ms: Seq<M>, max: nat)
    requires max <= u32::MAX, forall|i: int| 0 <= i < ms.len() ==> ser(#[trigger] ms[i]).len() <= max,
    ensures decode_all::<M>(frames(ms), max, ms.len()) =~= ms,
    decreases ms.len()
{
    if ms.len() > 0 {
        let rest = ms.skip(1);
        assert forall|i: int| 0 <= i < rest.len() implies ser(#[trigger] rest[i]).len() <= max by { assert(rest[i] == ms[i + 1]); }
        lemma_stream_roundtrip(rest, max);
        lemma_decode_frame(ms[0], frames(rest), max);
        assert(frames(ms) == frame(ms[0]) + frames(rest));
        assert(seq![ms[0]] + rest =~= ms);
    }
}
