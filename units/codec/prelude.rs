// target assumption: 64-bit usize (`4 + frame_len` cannot overflow for frame_len <= u32::MAX)
global size_of usize == 8;

pub struct PhantomData<X> { pub g: Ghost<Option<X>> }
pub mod std { pub mod io { pub struct Error { pub e: u8 } } }

// ---- big-endian u32 ------------------------------------------------------------------------------------------
pub mod be_ax {
    use super::*;
    pub uninterp spec fn be_bytes(x: u32) -> Seq<u8>;
    pub uninterp spec fn spec_from_be(b: Seq<u8>) -> u32;
    pub broadcast axiom fn be_len(x: u32) ensures (#[trigger] be_bytes(x)).len() == 4;
    pub broadcast axiom fn be_roundtrip(x: u32) ensures spec_from_be(#[trigger] be_bytes(x)) == x;
    pub broadcast axiom fn be_injective(b: Seq<u8>) ensures b.len() == 4 ==> be_bytes(#[trigger] spec_from_be(b)) == b;
}
pub use be_ax::*;
broadcast use {be_len, be_roundtrip, be_injective};
// `u32::from_be_bytes` (its std signature uses a const expression Verus cannot match: redirected by a declared substitution)
#[verifier::external_body]
pub fn verif_u32_from_be_bytes(b: [u8; 4]) -> (r: u32)
    ensures r == spec_from_be(b@)
{ u32::from_be_bytes(b) }

// ---- BytesMut --------------------------------------------------------------------------------------------------
pub struct BytesMut { pub v: Vec<u8> }
impl BytesMut {
    pub open spec fn view(&self) -> Seq<u8> { self.v@ }
    #[verifier::external_body]
    pub fn len(&self) -> (r: usize) ensures r == self@.len() { unimplemented!() }
    #[verifier::external_body]
    pub fn put_u32(&mut self, x: u32) ensures final(self)@ == old(self)@ + be_bytes(x) { unimplemented!() }
    #[verifier::external_body]
    pub fn reserve(&mut self, additional: usize) ensures final(self)@ == old(self)@ { unimplemented!() }
    #[verifier::external_body]
    pub fn writer(&mut self) -> (r: &mut BytesMut) ensures *r == *old(self), *final(r) == *final(self) { unimplemented!() }
    #[verifier::external_body]
    pub fn advance(&mut self, n: usize)
        requires n <= old(self)@.len(),
        ensures final(self)@ == old(self)@.skip(n as int)
    { unimplemented!() }
    // `src[..4].try_into().expect(..)`
    #[verifier::external_body]
    pub fn first4(&self) -> (r: [u8; 4])
        requires self@.len() >= 4,
        ensures r@ == self@.subrange(0, 4)
    { unimplemented!() }
    // `&src[a..b]`
    #[verifier::external_body]
    pub fn slice(&self, a: usize, b: usize) -> (r: &[u8])
        requires a <= b <= self@.len(),
        ensures r@ == self@.subrange(a as int, b as int)
    { unimplemented!() }
}

// ---- postcard (uninterpreted, injective serialisation) -----------------------------------------------------------
pub mod pc_ax {
    use super::*;
    pub uninterp spec fn ser<M>(m: M) -> Seq<u8>;
    pub uninterp spec fn de<M>(b: Seq<u8>) -> Option<M>;
    pub broadcast axiom fn de_ser<M>(m: M) ensures de::<M>(#[trigger] ser(m)) == Some(m);
    pub broadcast axiom fn ser_de<M>(b: Seq<u8>) ensures (#[trigger] de::<M>(b)) is Some ==> ser(de::<M>(b)->0) == b;
}
pub use pc_ax::*;
broadcast use {de_ser, ser_de};
pub mod postcard {
    use super::*;
    pub struct Error { pub e: u8 }
    pub struct Size { pub s: u8 }
    impl Size {
        #[verifier::external_body]
        pub fn default() -> Size { unimplemented!() }
    }
    #[verifier::external_body]
    pub fn serialize_with_flavor<M>(item: &M, flavor: Size) -> (r: Result<usize, Error>)
        ensures r is Ok ==> r->Ok_0 == ser(*item).len()
    { unimplemented!() }
    #[verifier::external_body]
    pub fn to_io<M>(item: &M, w: &mut &mut BytesMut) -> (r: Result<(), Error>)
        ensures r is Ok ==> (**final(w))@ == (**old(w))@ + ser(*item), *final(*final(w)) == *final(*old(w)),
    { unimplemented!() }
    #[verifier::external_body]
    pub fn from_bytes<M>(b: &[u8]) -> (r: Result<M, Error>)
        ensures r is Ok <==> de::<M>(b@) is Some, r is Ok ==> r->Ok_0 == de::<M>(b@)->0
    { unimplemented!() }
}

impl vstd::std_specs::convert::FromSpecImpl<postcard::Error> for CodecError {
    open spec fn obeys_from_spec() -> bool { true }
    open spec fn from_spec(e: postcard::Error) -> Self { CodecError::Postcard(e) }
}
impl From<postcard::Error> for CodecError {
    fn from(e: postcard::Error) -> (r: Self) { CodecError::Postcard(e) }
}

// ---- specification: a frame is a 4-byte big-endian length followed by the postcard bytes -------------------------
pub open spec fn frame<M>(m: M) -> Seq<u8> { be_bytes(ser(m).len() as u32) + ser(m) }
pub open spec fn frame_len_of(src: Seq<u8>) -> nat { spec_from_be(src.subrange(0, 4)) as nat }
