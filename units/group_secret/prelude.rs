// ---- shims for the crate-local types the extracted functions mention --------------------------------
pub struct Secret<const N: usize> { pub bytes: [u8; N] }
pub struct Rng { pub state: u64 }
pub struct RngError { pub e: u8 }
pub enum GroupSecretError { Rng(RngError), Other }

pub uninterp spec fn spec_id(s: GroupSecret) -> GroupSecretId;

impl GroupSecret {
    // SHA-256 digest of the secret bytes (crypto leaf): a deterministic function of the secret.
    #[verifier::external_body]
    pub fn id(&self) -> (r: GroupSecretId)
        ensures r == spec_id(*self)
    { unimplemented!() }

    // a fresh secret: arbitrary bytes, arbitrary clock reading
    #[verifier::external_body]
    pub fn from_rng(rng: &Rng) -> (r: Result<GroupSecret, GroupSecretError>)
    { unimplemented!() }
}

// ---- order on ids: `>` on [u8; 32] ----------------------------------------------------------------------
pub mod id_ax {
    use super::*;
    pub uninterp spec fn arr_lt(a: GroupSecretId, b: GroupSecretId) -> bool;
    pub open spec fn zero_id() -> GroupSecretId { vstd::array::spec_array_fill_for_copy_type::<u8, 32>(0u8) }
    pub broadcast axiom fn arr_ord(a: GroupSecretId, b: GroupSecretId)
        ensures #[trigger] a.partial_cmp_spec(&b) == (if arr_lt(a, b) { Some(Ordering::Less) } else if a == b { Some(Ordering::Equal) } else { Some(Ordering::Greater) });
    pub broadcast axiom fn arr_obeys()
        ensures #[trigger] <GroupSecretId as PartialOrdSpec>::obeys_partial_cmp_spec();
    // strict total order, zero least
    pub broadcast axiom fn arr_lt_irrefl(a: GroupSecretId) ensures !#[trigger] arr_lt(a, a);
    pub broadcast axiom fn arr_lt_trans(a: GroupSecretId, b: GroupSecretId, c: GroupSecretId)
        ensures #[trigger] arr_lt(a, b) && #[trigger] arr_lt(b, c) ==> arr_lt(a, c);
    pub broadcast axiom fn arr_lt_total(a: GroupSecretId, b: GroupSecretId)
        ensures #[trigger] arr_lt(a, b) || a == b || arr_lt(b, a);
    pub broadcast axiom fn arr_zero_least(a: GroupSecretId) ensures !#[trigger] arr_lt(a, zero_id());
}
pub use id_ax::*;
broadcast use {arr_ord, arr_obeys, arr_lt_irrefl, arr_lt_trans, arr_lt_total, arr_zero_least};

// ---- specification: "latest" = maximum by (timestamp, id) ---------------------------------------------
pub open spec fn key_lt(t1: Timestamp, i1: GroupSecretId, t2: Timestamp, i2: GroupSecretId) -> bool {
    t1 < t2 || (t1 == t2 && arr_lt(i1, i2))
}
pub open spec fn is_latest(m: Map<GroupSecretId, GroupSecret>, k: GroupSecretId) -> bool {
    &&& m.contains_key(k)
    &&& forall|j: GroupSecretId| #[trigger] m.contains_key(j) ==> !key_lt(m[k].1, k, m[j].1, j)
}
pub open spec fn latest_ok(m: Map<GroupSecretId, GroupSecret>, l: Option<GroupSecretId>) -> bool {
    match l { Some(k) => is_latest(m, k), None => forall|j: GroupSecretId| !m.contains_key(j) }
}
pub open spec fn no_zero_sentinel(m: Map<GroupSecretId, GroupSecret>) -> bool {
    forall|j: GroupSecretId| #[trigger] m.contains_key(j) ==> !(m[j].1 == 0 && j == zero_id())
}
pub open spec fn keys_are_ids(m: Map<GroupSecretId, GroupSecret>) -> bool {
    forall|j: GroupSecretId| #[trigger] m.contains_key(j) ==> j == spec_id(m[j])
}
pub open spec fn bundle_wf(y: SecretBundleState) -> bool {
    &&& latest_ok(y.secrets@, y.latest)
    &&& no_zero_sentinel(y.secrets@)
    &&& keys_are_ids(y.secrets@)
}

// loop invariant of find_latest: (ts, best) is the maximum of the entries visited so far
pub open spec fn cand_beats(ts: Timestamp, best: Option<GroupSecretId>, t: Timestamp, k: GroupSecretId) -> bool {
    ts < t || (ts == t && arr_lt(match best { Some(b) => b, None => zero_id() }, k))
}
#[verifier::opaque]
pub open spec fn fl_inv(m: Map<GroupSecretId, GroupSecret>, h: Seq<(&GroupSecretId, &GroupSecret)>, ts: Timestamp, best: Option<GroupSecretId>) -> bool {
    match best {
        None => h.len() == 0 && ts == 0,
        Some(b) => m.contains_key(b) && ts == m[b].1 && forall|k: GroupSecretId| visited(h, k) && #[trigger] m.contains_key(k) ==> !key_lt(ts, b, m[k].1, k),
    }
}

// ---- HashMap::extend(other: HashMap) = union preferring `other` (documented std behaviour) -----------------
pub mod ext_ax {
    use super::*;
    pub uninterp spec fn extend_rel<K, V, T>(before: Map<K, V>, it: T, after: Map<K, V>) -> bool;
    pub broadcast axiom fn extend_with_hashmap<K, V, S>(before: Map<K, V>, other: HashMap<K, V, S>, after: Map<K, V>)
        ensures #[trigger] extend_rel(before, other, after) ==> after == before.union_prefer_right(other@);
}
pub use ext_ax::*;
broadcast use extend_with_hashmap;
pub assume_specification<K: Eq + Hash, V, S: BuildHasher, A: Allocator, T: IntoIterator<Item = (K, V)>> [<HashMap<K, V, S, A> as Extend<(K, V)>>::extend] (m: &mut HashMap<K, V, S, A>, iter: T)
    ensures extend_rel(old(m)@, iter, final(m)@);
