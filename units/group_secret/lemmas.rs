pub proof fn lemma_fl_init(m: Map<GroupSecretId, GroupSecret>, h: Seq<(&GroupSecretId, &GroupSecret)>)
    requires h.len() == 0,
    ensures fl_inv(m, h, 0, None),
{
    reveal(fl_inv);
}

pub proof fn lemma_fl_accept(m: Map<GroupSecretId, GroupSecret>, h: Seq<(&GroupSecretId, &GroupSecret)>, h2: Seq<(&GroupSecretId, &GroupSecret)>,
    ts: Timestamp, best: Option<GroupSecretId>, k: GroupSecretId)
    requires
        fl_inv(m, h, ts, best), next_key(h, h2, k), m.contains_key(k),
        cand_beats(ts, best, m[k].1, k),
    ensures
        fl_inv(m, h2, m[k].1, Some(k)),
{
    reveal(fl_inv);
    broadcast use {arr_lt_irrefl, arr_lt_trans, arr_lt_total, arr_zero_least};
    assert forall|j: GroupSecretId| visited(h2, j) && #[trigger] m.contains_key(j) implies !key_lt(m[k].1, k, m[j].1, j) by {
        if j != k {
            assert(visited(h, j));
            if best is Some {
                assert(!key_lt(ts, best->0, m[j].1, j));
            } else {
                assert(h.len() == 0);
            }
        }
    }
}

pub proof fn lemma_fl_reject(m: Map<GroupSecretId, GroupSecret>, h: Seq<(&GroupSecretId, &GroupSecret)>, h2: Seq<(&GroupSecretId, &GroupSecret)>,
    ts: Timestamp, best: Option<GroupSecretId>, k: GroupSecretId)
    requires
        fl_inv(m, h, ts, best), next_key(h, h2, k), m.contains_key(k),
        !cand_beats(ts, best, m[k].1, k),
        no_zero_sentinel(m),
    ensures
        fl_inv(m, h2, ts, best),
{
    reveal(fl_inv);
    broadcast use {arr_lt_irrefl, arr_lt_trans, arr_lt_total, arr_zero_least};
    if best is None {
        // ts == 0, so m[k].1 == 0 and !arr_lt(zero, k), hence k == zero: excluded by no_zero_sentinel
        assert(m[k].1 == 0);
        assert(k == zero_id());
        assert(false);
    } else {
        let b = best->0;
        assert forall|j: GroupSecretId| visited(h2, j) && #[trigger] m.contains_key(j) implies !key_lt(ts, b, m[j].1, j) by {
            if j == k {
            } else {
                assert(visited(h, j));
            }
        }
    }
}

pub proof fn lemma_fl_done(m: Map<GroupSecretId, GroupSecret>, h: Seq<(&GroupSecretId, &GroupSecret)>, ts: Timestamp, best: Option<GroupSecretId>)
    requires fl_inv(m, h, ts, best), covers(h, m),
    ensures latest_ok(m, best),
{
    reveal(fl_inv);
    match best {
        None => {
            assert forall|j: GroupSecretId| !m.contains_key(j) by {
                if m.contains_key(j) {
                    assert(visited(h, j));
                }
            }
        }
        Some(b) => {
            assert forall|j: GroupSecretId| #[trigger] m.contains_key(j) implies !key_lt(m[b].1, b, m[j].1, j) by {
                assert(visited(h, j));
            }
        }
    }
}

//@ obligation name=latest_is_unique props=C36
// "The latest secret is the maximum by (timestamp, id) independent of insertion or merge order":
// is_latest determines the key uniquely, so the result is a function of the set of secrets alone.
pub proof fn lemma_latest_unique(m: Map<GroupSecretId, GroupSecret>, a: GroupSecretId, b: GroupSecretId)
    requires is_latest(m, a), is_latest(m, b),
    ensures a == b,
{
    broadcast use {arr_lt_irrefl, arr_lt_trans, arr_lt_total, arr_zero_least};
    assert(!key_lt(m[a].1, a, m[b].1, b));
    assert(!key_lt(m[b].1, b, m[a].1, a));
}
