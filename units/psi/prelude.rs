pub struct PhantomData<X> { pub g: Ghost<Option<X>> }
#[derive(Clone, Copy, PartialEq, Eq, Hash, Structural)]
pub struct Topic(pub [u8; 32]);
pub struct IoError { pub e: u8 }
pub struct StreamErr { pub e: u8 }

// ---- salted hashing (crypto leaf) -------------------------------------------------------------------------------------------
// BLAKE3 itself is the uninterpreted function spec_blake3 over the bytes fed to the hasher; the salted topic hash is BLAKE3 over
// the 32 topic bytes followed by the 65 salt bytes (this layout is what `fn hash` is proved to implement)
pub uninterp spec fn spec_blake3(input: Seq<u8>) -> [u8; 32];
pub open spec fn spec_hash(t: Topic, salt: [u8; 65]) -> Topic { Topic(spec_blake3(t.0@ + salt@)) }
pub struct Blake3Hasher { pub fed: Ghost<Seq<u8>> }
pub struct Blake3Hash { pub bytes: [u8; 32] }
impl Blake3Hasher {
    #[verifier::external_body]
    pub fn new() -> (r: Self) ensures r.fed@ == Seq::<u8>::empty() { unimplemented!() }
    #[verifier::external_body]
    pub fn write_all(&mut self, buf: &[u8]) -> (r: Result<(), IoError>)
        ensures r is Ok ==> final(self).fed@ == old(self).fed@ + buf@, r is Err ==> final(self).fed@.len() >= old(self).fed@.len()
    { unimplemented!() }
    #[verifier::external_body]
    pub fn finalize(&self) -> (r: Blake3Hash) ensures r.bytes == spec_blake3(self.fed@) { unimplemented!() }
}
impl Blake3Hash {
    pub fn as_bytes(&self) -> (r: &[u8; 32]) ensures *r == self.bytes { &self.bytes }
}
pub uninterp spec fn spec_salt(a: [u8; 32], b: [u8; 32], dir: u8) -> [u8; 65];
#[verifier::external_body]
pub fn hash_vector(topics: &[Topic], salt: &[u8; 65]) -> (r: Result<Vec<Topic>, IoError>)
    ensures r is Ok ==> (r->Ok_0)@.len() == topics@.len() && forall|i: int| 0 <= i < topics@.len() ==> #[trigger] (r->Ok_0)@[i] == spec_hash(topics@[i], *salt)
{ unimplemented!() }
#[verifier::external_body]
pub fn combine_salt(alice_salt_half: &[u8; 32], bob_salt_half: &[u8; 32], pair_byte: &u8) -> (r: [u8; 65])
    ensures r == spec_salt(*alice_salt_half, *bob_salt_half, *pair_byte)
{ unimplemented!() }
#[verifier::external_body]
pub fn generate_salt_half() -> (r: [u8; 32]) { unimplemented!() }

// ---- store / subscription / node info (contract-only) -----------------------------------------------------------------------
pub trait NodeInfo<ID> {
    type Transports;
    spec fn spec_id(&self) -> ID;
    spec fn spec_transports(&self) -> Option<Self::Transports>;
    fn id(&self) -> (r: ID) ensures r == self.spec_id();
    fn transports(&self) -> (r: Option<Self::Transports>) ensures r == self.spec_transports();
}
pub trait AddressBookStore<ID, N: NodeInfo<ID>> {
    type Error;
    spec fn topic_queries(&self) -> Seq<Seq<Topic>>;   // ghost log: the topic lists node_infos_by_topics was asked for
    spec fn all_queries(&self) -> nat;                 // ghost counter: calls of all_node_infos
    fn node_infos_by_topics(&mut self, topics: &Vec<Topic>) -> (r: Result<Vec<N>, Self::Error>)
        ensures final(self).topic_queries() == old(self).topic_queries().push(topics@), final(self).all_queries() == old(self).all_queries();
    fn node_info(&mut self, id: &ID) -> (r: Result<Option<N>, Self::Error>)
        ensures final(self).topic_queries() == old(self).topic_queries(), final(self).all_queries() == old(self).all_queries(),
            r is Ok && r->Ok_0 is Some ==> (r->Ok_0->0).spec_id() == *id;
    fn all_node_infos(&mut self) -> (r: Result<Vec<N>, Self::Error>)
        ensures final(self).topic_queries() == old(self).topic_queries(), final(self).all_queries() == old(self).all_queries() + 1;
}
pub trait LocalTopics {
    type Error;
    spec fn reads(&self) -> Seq<Set<Topic>>;           // ghost log: what each call of topics() returned
    fn topics(&mut self) -> (r: Result<HashSet<Topic>, Self::Error>)
        ensures r is Ok ==> final(self).reads() == old(self).reads().push((r->Ok_0)@), r is Err ==> final(self).reads() == old(self).reads();
}

// ---- ghost transcripts of the transport ----------------------------------------------------------------------------------------
pub struct GhostSink<M> { pub sent: Ghost<Seq<M>> }
impl<M> GhostSink<M> {
    pub open spec fn view(&self) -> Seq<M> { self.sent@ }
    #[verifier::external_body]
    pub fn send(&mut self, m: M) -> (r: Result<(), StreamErr>)
        ensures r is Ok ==> final(self)@ == old(self)@.push(m), r is Err ==> final(self)@ == old(self)@,
    { unimplemented!() }
}
pub struct GhostStream<M> { pub pending: Ghost<Seq<Result<M, StreamErr>>> }
impl<M> GhostStream<M> {
    pub open spec fn view(&self) -> Seq<Result<M, StreamErr>> { self.pending@ }
    #[verifier::external_body]
    pub fn next(&mut self) -> (r: Option<Result<M, StreamErr>>)
        ensures
            old(self)@.len() == 0 ==> r is None && final(self)@ == old(self)@,
            old(self)@.len() > 0 ==> r == Some(old(self)@[0]) && final(self)@ == old(self)@.skip(1),
    { unimplemented!() }
}

// ---- iterator adapter helpers (assumed contracts) ---------------------------------------------------------------------------------
// R16c: `set.into_iter().collect::<Vec<_>>()`: an enumeration of the set, each element exactly once
#[verifier::external_body]
pub fn verif_into_iter_collect(s: HashSet<Topic>) -> (r: Vec<Topic>)
    ensures r@.to_set() == s@, r@.no_duplicates(), forall|t: Topic| #[trigger] r@.contains(t) <==> s@.contains(t)
{ unimplemented!() }
// R16d: `v.iter().any(f)`
#[verifier::external_body]
pub fn verif_iter_any<T, F: Fn(&T) -> bool>(v: &Vec<T>, f: F) -> (r: bool)
    requires forall|i: int| 0 <= i < v@.len() ==> call_requires(f, (&#[trigger] v@[i],)),
    ensures r == exists|i: int| 0 <= i < v@.len() && call_ensures(f, (&#[trigger] v@[i],), true)
{ unimplemented!() }

// thiserror #[from] std::io::Error
impl<S: AddressBookStore<ID, N>, P: LocalTopics, ID, N: NodeInfo<ID>> vstd::std_specs::convert::FromSpecImpl<IoError> for PsiHashError<S, P, ID, N> {
    open spec fn obeys_from_spec() -> bool { true }
    open spec fn from_spec(e: IoError) -> Self { PsiHashError::Hash(e) }
}
impl<S: AddressBookStore<ID, N>, P: LocalTopics, ID, N: NodeInfo<ID>> From<IoError> for PsiHashError<S, P, ID, N> { fn from(e: IoError) -> (r: Self) { PsiHashError::Hash(e) } }
// Vec::extend(iter): appends the items of iter (std documentation); stated for a one-element array
pub mod ext_ax {
    use super::*;
    pub uninterp spec fn extend_rel<T, I>(before: Seq<T>, it: I, after: Seq<T>) -> bool;
    pub broadcast axiom fn extend_with_array1<T>(before: Seq<T>, it: [T; 1], after: Seq<T>)
        ensures #[trigger] extend_rel(before, it, after) ==> after == before.push(it@[0]);
}
pub use ext_ax::*;
broadcast use extend_with_array1;
pub assume_specification<T, A, I> [<std::vec::Vec<T, A> as std::iter::Extend<T>>::extend] (v: &mut std::vec::Vec<T, A>, it: I)
    where A: std::alloc::Allocator, I: std::iter::IntoIterator<Item = T>,
    ensures extend_rel(old(v)@, it, final(v)@);

// ---- specification ------------------------------------------------------------------------------------------------------------
pub open spec fn lawful_eq<T: PartialEq>() -> bool { <T as vstd::std_specs::cmp::PartialEqSpec>::obeys_eq_spec() && forall|a: T, b: T| #[trigger] a.eq_spec(&b) == (a == b) }
pub open spec fn lawful_clone<T: Clone>() -> bool { forall|a: T, b: T| #[trigger] call_ensures(T::clone, (&a,), b) ==> a == b }
// h is exactly the image of ts under the salted hash (nothing else derived from the topics is in it)
pub open spec fn is_hashed_image(ts: Set<Topic>, salt: [u8; 65], h: Set<Topic>) -> bool {
    forall|x: Topic| h.contains(x) <==> exists|t: Topic| ts.contains(t) && #[trigger] spec_hash(t, salt) == x
}
// r is exactly the set of own topics whose salted hash the peer sent
pub open spec fn is_intersection(local: Set<Topic>, remote_hashes: Set<Topic>, salt: [u8; 65], r: Set<Topic>) -> bool {
    forall|t: Topic| #[trigger] r.contains(t) <==> local.contains(t) && remote_hashes.contains(spec_hash(t, salt))
}
pub open spec fn hit(local: Seq<Topic>, hashes: Set<Topic>, salt: [u8; 65], j: int) -> bool { hashes.contains(spec_hash(local[j], salt)) }
// R16e: `HashSet::from_iter(vec)`: the set of the items (std documentation)
#[verifier::external_body]
pub fn verif_hashset_from_iter(v: Vec<Topic>) -> (r: HashSet<Topic>)
    ensures r@ == v@.to_set()
{ unimplemented!() }
// `HashSet::clone`: an equal set
pub assume_specification<T: Clone, S: Clone, A: Allocator + Clone> [<HashSet<T, S, A> as Clone>::clone] (s: &HashSet<T, S, A>) -> (r: HashSet<T, S, A>)
    ensures r@ == s@;
