// the set of the hashed list is exactly the image of the set of the list
pub proof fn lemma_hashed_image(v: Seq<Topic>, q: Seq<Topic>, salt: [u8; 65])
    requires q.len() == v.len(), forall|i: int| 0 <= i < v.len() ==> #[trigger] q[i] == spec_hash(v[i], salt),
    ensures is_hashed_image(v.to_set(), salt, q.to_set()),
{
    assert forall|x: Topic| q.to_set().contains(x) <==> exists|t: Topic| v.to_set().contains(t) && #[trigger] spec_hash(t, salt) == x by {
        if q.to_set().contains(x) {
            let i = choose|i: int| 0 <= i < q.len() && q[i] == x;
            assert(v.to_set().contains(v[i]) && spec_hash(v[i], salt) == x);
        }
        if exists|t: Topic| v.to_set().contains(t) && #[trigger] spec_hash(t, salt) == x {
            let t = choose|t: Topic| v.to_set().contains(t) && #[trigger] spec_hash(t, salt) == x;
            let i = choose|i: int| 0 <= i < v.len() && v[i] == t;
            assert(q[i] == x);
        }
    }
}

// wiring both sides together: if each side receives exactly what the other sent and the salted hash is injective on the
// topics involved, both results are the intersection of the two topic sets (first clause of C30)
//@ obligation props=C30
pub proof fn lemma_both_sides_obtain_the_intersection(a: Set<Topic>, b: Set<Topic>, salt_a: [u8; 65], salt_b: [u8; 65], for_bob: Set<Topic>, for_alice: Set<Topic>, ra: Set<Topic>, rb: Set<Topic>)
    requires
        is_hashed_image(a, salt_a, for_bob), is_hashed_image(b, salt_b, for_alice),
        is_intersection(a, for_alice, salt_b, ra), is_intersection(b, for_bob, salt_a, rb),
        forall|s: Topic, t: Topic| #[trigger] spec_hash(s, salt_a) == #[trigger] spec_hash(t, salt_a) ==> s == t,
        forall|s: Topic, t: Topic| #[trigger] spec_hash(s, salt_b) == #[trigger] spec_hash(t, salt_b) ==> s == t,
    ensures ra =~= a.intersect(b), rb =~= a.intersect(b),
{
    assert forall|t: Topic| ra.contains(t) <==> a.contains(t) && b.contains(t) by {
        if a.contains(t) && b.contains(t) { assert(for_alice.contains(spec_hash(t, salt_b))); }
        if ra.contains(t) { let u = choose|u: Topic| b.contains(u) && #[trigger] spec_hash(u, salt_b) == spec_hash(t, salt_b); assert(u == t); }
    }
    assert forall|t: Topic| rb.contains(t) <==> a.contains(t) && b.contains(t) by {
        if a.contains(t) && b.contains(t) { assert(for_bob.contains(spec_hash(t, salt_a))); }
        if rb.contains(t) { let u = choose|u: Topic| a.contains(u) && #[trigger] spec_hash(u, salt_a) == spec_hash(t, salt_a); assert(u == t); }
    }
}
