// releasing `key`, whose dependencies are all ready, keeps "released only after its dependencies, at most once"
pub proof fn lemma_release_step<ID>(ready: Set<ID>, q: Seq<ID>, key: ID, deps: Seq<ID>)
    requires release_inv(ready, q), deps.to_set() == deps_fn(key), all_in(deps, ready),
    ensures release_inv(ready.insert(key), q.push(key)), ready.contains(key) ==> release_inv(ready.insert(key), q),
{
    if ready.contains(key) { assert(ready.insert(key) =~= ready); }
    let q2 = q.push(key);
    assert(q2.to_set() =~= q.to_set().insert(key)) by {
        assert forall|x: ID| q2.to_set().contains(x) == q.to_set().insert(key).contains(x) by {
            if q2.to_set().contains(x) { let i = choose|i: int| 0 <= i < q2.len() && q2[i] == x; if i < q.len() { assert(q[i] == x); } }
            if q.to_set().contains(x) { let i = choose|i: int| 0 <= i < q.len() && q[i] == x; assert(q2[i] == x); }
            if x == key { assert(q2[q.len() as int] == x); }
        }
    }
    assert forall|i: int, d: ID| 0 <= i < q2.len() && #[trigger] deps_fn(q2[i]).contains(d) implies exists|j: int| 0 <= j < i && q2[j] == d by {
        if i < q.len() {
            assert(deps_fn(q[i]).contains(d));
            let j = choose|j: int| 0 <= j < i && q[j] == d;
            assert(q2[j] == d);
        } else {
            assert(deps.to_set().contains(d));
            let k = choose|k: int| 0 <= k < deps.len() && deps[k] == d;
            assert(ready.contains(deps[k]));
            assert(q.to_set().contains(d));
            let j = choose|j: int| 0 <= j < q.len() && q[j] == d;
            assert(q2[j] == d);
        }
    }
}
