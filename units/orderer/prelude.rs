pub struct PhantomData<X> { pub g: Ghost<Option<X>> }
pub open spec fn lawful_clone<T: Clone>() -> bool { forall|a: T, b: T| #[trigger] call_ensures(T::clone, (&a,), b) ==> a == b }

// the dependencies of an item (a function of the item: operations are immutable)
pub uninterp spec fn deps_fn<ID>(id: ID) -> Set<ID>;

pub open spec fn all_in<ID>(keys: Seq<ID>, s: Set<ID>) -> bool { forall|i: int| 0 <= i < keys.len() ==> s.contains(#[trigger] keys[i]) }

pub trait OrdererStore<ID> {
    type Error;
    spec fn ready_set(&self) -> Set<ID>;   // items whose dependencies were all met ("ready list")
    spec fn queue(&self) -> Seq<ID>;       // every item in the order it was released into the ready queue (taken or not)

    fn ready(&mut self, keys: &[ID]) -> (r: Result<bool, Self::Error>)
        ensures final(self).ready_set() == old(self).ready_set(), final(self).queue() == old(self).queue(),
            r is Ok ==> r->Ok_0 == all_in(keys@, old(self).ready_set());
    fn mark_ready(&mut self, id: ID) -> (r: Result<bool, Self::Error>)
        ensures
            // a new item is put on the ready queue; an item that is ready already is queued again when it was taken from the
            // queue before ("not swallow items when they got re-processed", p2panda-store/src/orderer/sqlite.rs) and otherwise left
            r is Ok ==> final(self).ready_set() == old(self).ready_set().insert(id)
                && (final(self).queue() == old(self).queue().push(id) || (old(self).ready_set().contains(id) && final(self).queue() == old(self).queue())),
            r is Err ==> final(self).ready_set() == old(self).ready_set() && final(self).queue() == old(self).queue();
    fn mark_pending(&mut self, id: ID, dependencies: Vec<ID>) -> (r: Result<bool, Self::Error>)
        requires dependencies@.to_set() == deps_fn(id),
        ensures final(self).ready_set() == old(self).ready_set(), final(self).queue() == old(self).queue();
    fn get_next_pending(&mut self, id: ID) -> (r: Result<Option<HashSet<(ID, Vec<ID>)>>, Self::Error>)
        ensures final(self).ready_set() == old(self).ready_set(), final(self).queue() == old(self).queue(),
            r is Ok && r->Ok_0 is Some ==> forall|p: (ID, Vec<ID>)| #[trigger] (r->Ok_0->0)@.contains(p) ==> p.1@.to_set() == deps_fn(p.0);
    fn remove_pending(&mut self, id: ID) -> (r: Result<bool, Self::Error>)
        ensures final(self).ready_set() == old(self).ready_set(), final(self).queue() == old(self).queue();
}

#[verifier::external_body]
pub fn verif_hashset_into_elems<T>(s: HashSet<T>) -> (r: Vec<T>)
    ensures r@.to_set() == s@, r@.no_duplicates(), forall|x: T| #[trigger] r@.contains(x) <==> s@.contains(x)
{ unimplemented!() }

// ---- the property: an item is released only after every one of its dependencies ---------------------------------------------
// (q = everything ever put on the ready queue, in order; a re-processed item may occur more than once)
pub open spec fn release_inv<ID>(ready: Set<ID>, q: Seq<ID>) -> bool {
    &&& ready == q.to_set()
    &&& forall|i: int, d: ID| 0 <= i < q.len() && #[trigger] deps_fn(q[i]).contains(d) ==> exists|j: int| 0 <= j < i && q[j] == d
}

// <[T]>::to_vec: a Vec of clones of the elements (std documentation); equal elements for a lawful Clone
pub assume_specification<T> [<[T]>::to_vec] (s: &[T]) -> (r: std::vec::Vec<T>)
    where T: std::clone::Clone,
    ensures lawful_clone::<T>() ==> r@ == s@;
