pub struct PhantomData<X> { pub g: Ghost<Option<X>> }
pub trait Conditions: Clone {}
pub trait Forge<C> {}
pub trait AuthResolver<C> {}
pub struct StoreErr { pub e: u8 }
impl StoreErr {
    #[verifier::external_body]
    pub fn to_string(&self) -> (r: String) { unimplemented!() }
}
pub trait StoreShim<C> {
    // SpacesMessageStore::get_spaces_message: ANY stored message may come back (in particular one of any variant)
    fn get_spaces_message(&self, id: &Hash) -> (r: Result<Option<SpacesMessage<C>>, StoreErr>);
}

#[derive(Clone, Copy, PartialEq, Eq, Structural)]
pub struct Hash(pub [u8; 32]);
#[derive(Clone, Copy, PartialEq, Eq, Structural)]
pub struct VerifyingKey(pub [u8; 32]);
pub type SpaceId = Hash;
pub type ActorId = VerifyingKey;
pub type GroupId = ActorId;
pub type OperationId = Hash;
pub type GroupSecretId = [u8; 32];
pub type XAeadNonce = [u8; 24];
pub struct LongTermKeyBundle { pub b: u8 }
pub struct EncryptionDirectMessage { pub d: u8 }
// p2panda_auth::group::GroupAction: the five variants, contents opaque
pub enum GroupAction<ID, C> {
    Create { g: Ghost<Option<(ID, C)>> },
    Add { g: Ghost<Option<(ID, C)>> },
    Remove { g: Ghost<Option<(ID, C)>> },
    Promote { g: Ghost<Option<(ID, C)>> },
    Demote { g: Ghost<Option<(ID, C)>> },
}
impl<ID, C> GroupAction<ID, C> {
    pub fn is_create(&self) -> (r: bool) ensures r == (self is Create) { matches!(self, GroupAction::Create { .. }) }
}
// access-level changes are not implemented in p2panda-spaces: the event constructors behind Group::process and
// Space::handle_membership_message hit `unimplemented!()` for them (p2panda-spaces/src/event.rs)
pub open spec fn supported_action<ID, C>(a: GroupAction<ID, C>) -> bool { !(a is Promote) && !(a is Demote) }
pub trait Provenance<A> { fn author(&self) -> A; }
pub trait Digest<ID> { fn hash(&self) -> ID; }
#[verifier::external_body]
pub fn verif_opaque_string() -> String { unimplemented!() }
// ---- opaque collaborators of the dispatcher (arbitrary results, no panics assumed) -----------------------------------------
pub struct Rng { pub r: u8 }
pub struct RngError { pub e: u8 }
pub struct SpaceError<F, C, RS> { pub g: Ghost<Option<(F, C, RS)>> }
pub struct GroupError<F, C, RS> { pub g: Ghost<Option<(F, C, RS)>> }
pub struct IdentityError<F, C> { pub g: Ghost<Option<(F, C)>> }
pub enum StoreError { SpacesStore(String), Other }
pub struct AuthGroupState<C> { pub g: Ghost<Option<C>> }
pub struct SpacesState<C> { pub g: Ghost<Option<C>> }
pub struct Event<C> { pub g: Ghost<Option<C>> }
pub struct RwLock<X> { pub x: X }
impl<X> RwLock<X> {
    pub fn read(&self) -> (r: &X) { &self.x }
    pub fn write(&mut self) -> (r: &mut X) { &mut self.x }
}
pub struct IdentityManager<S, F, C> { pub g: Ghost<Option<(S, F, C)>> }
impl<S, F, C> IdentityManager<S, F, C> {
    #[verifier::external_body]
    pub fn process_key_bundle(&mut self, author: VerifyingKey, key_bundle: &LongTermKeyBundle) -> (r: Result<Event<C>, IdentityError<F, C>>) { unimplemented!() }
}
pub struct Group<S, F, C, RS> { pub g: Ghost<Option<(S, F, C, RS)>> }
impl<S, F: Forge<C>, C: Conditions, RS: AuthResolver<C>> Group<S, F, C, RS> {
    #[verifier::external_body]
    pub fn process(manager: Manager<S, F, C, RS>, message: &AuthMessage<C>) -> (r: Result<Option<(AuthGroupState<C>, Event<C>)>, GroupError<F, C, RS>>)
        requires supported_action(message.action)   // panics otherwise (auth_message_to_group_event: unimplemented!())
    { unimplemented!() }
}
pub struct Space<S, F, C, RS> { pub g: Ghost<Option<(S, F, C, RS)>> }
impl<S, F: Forge<C>, C: Conditions, RS: AuthResolver<C>> Space<S, F, C, RS> {
    #[verifier::external_body]
    pub fn new(manager: Manager<S, F, C, RS>, id: Hash) -> (r: Self) { unimplemented!() }
    #[verifier::external_body]
    pub fn handle_membership_message(&self, message: &SpaceMembershipMessage, auth_message: &AuthMessage<C>) -> (r: Result<Option<(SpacesState<C>, Vec<Event<C>>)>, SpaceError<F, C, RS>>)
        requires supported_action(auth_message.action)   // panics otherwise (space_message_to_space_event: unimplemented!())
    { unimplemented!() }
    #[verifier::external_body]
    pub fn handle_application_message(&self, message: &ApplicationMessage) -> (r: Result<Option<(SpacesState<C>, Vec<Event<C>>)>, SpaceError<F, C, RS>>) { unimplemented!() }
}
impl<S, F: Forge<C>, C: Conditions, RS: AuthResolver<C>> Manager<S, F, C, RS> {
    #[verifier::external_body]
    pub fn clone(&self) -> (r: Self) { unimplemented!() }
    // Manager::space: looks the space up in the store (opaque)
    #[verifier::external_body]
    pub fn space(&self, id: Hash) -> (r: Result<Option<Space<S, F, C, RS>>, ManagerError<F, C, RS>>) { unimplemented!() }
}
impl<C> AuthMessage<C> {
    pub fn action(&self) -> (r: &GroupAction<ActorId, C>) { &self.action }
}

impl<C: Clone> Clone for SpacesArgs<C> {
    #[verifier::external_body]
    fn clone(&self) -> (r: Self) ensures r == *self { unimplemented!() }
}
impl<ID, C> Clone for GroupAction<ID, C> {
    #[verifier::external_body]
    fn clone(&self) -> (r: Self) ensures r == *self { unimplemented!() }
}

// the real `impl Borrow<SpacesArgs<C>> for SpacesMessage<C>` returns the `args` field (extracted and checked against this)
pub mod sm_ax {
    use super::*;
    pub broadcast axiom fn borrow_spaces_message<C>(m: &SpacesMessage<C>)
        ensures #[trigger] borrowed_ref::<SpacesMessage<C>, SpacesArgs<C>>(m) == &m.args;
}
pub use sm_ax::*;
broadcast use borrow_spaces_message;

// thiserror #[from] conversions used by `?`
impl<F: Forge<C>, C: Conditions, RS: AuthResolver<C>> vstd::std_specs::convert::FromSpecImpl<StoreError> for ManagerError<F, C, RS> {
    open spec fn obeys_from_spec() -> bool { true }
    open spec fn from_spec(e: StoreError) -> Self { ManagerError::Store(e) }
}
impl<F: Forge<C>, C: Conditions, RS: AuthResolver<C>> From<StoreError> for ManagerError<F, C, RS> { fn from(e: StoreError) -> (r: Self) { ManagerError::Store(e) } }
