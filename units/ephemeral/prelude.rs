#[derive(Clone, Copy, PartialEq, Eq, Structural)]
pub struct VerifyingKey(pub [u8; 32]);
#[derive(Clone, Copy, PartialEq, Eq, Structural)]
pub struct Signature(pub [u8; 64]);
#[derive(Clone, Copy, PartialEq, Eq, Structural)]
pub struct Topic(pub [u8; 32]);
pub struct DecodeError { pub e: u8 }
pub struct EncodeError { pub e: u8 }
// tokio_stream::wrappers::errors::BroadcastStreamRecvError (its only variant)
pub enum RecvErr { Lagged(u64) }
pub struct PhantomData<X> { pub g: Ghost<Option<X>> }
pub enum Poll<T> { Ready(T), Pending }

pub uninterp spec fn sig_ok(key: VerifyingKey, bytes: Seq<u8>, sig: Signature) -> bool;
pub uninterp spec fn spec_decode<T>(bytes: Seq<u8>) -> Option<T>;
pub uninterp spec fn spec_encode<T>(v: T) -> Option<Seq<u8>>;

impl VerifyingKey {
    #[verifier::external_body]
    pub fn verify(&self, bytes: &[u8], signature: &Signature) -> (r: bool)
        ensures r == sig_ok(*self, bytes@, *signature)
    { unimplemented!() }
}
#[verifier::external_body]
pub fn decode_cbor<T>(bytes: &[u8]) -> (r: Result<T, DecodeError>)
    ensures r is Ok <==> spec_decode::<T>(bytes@) is Some, r is Ok ==> r->Ok_0 == spec_decode::<T>(bytes@)->0
{ unimplemented!() }
#[verifier::external_body]
pub fn encode_cbor<T>(v: &T) -> (r: Result<Vec<u8>, EncodeError>)
    ensures r is Ok <==> spec_encode::<T>(*v) is Some, r is Ok ==> r->Ok_0@ == spec_encode::<T>(*v)->0
{ unimplemented!() }

impl vstd::std_specs::convert::FromSpecImpl<DecodeError> for WrappedMessageError {
    open spec fn obeys_from_spec() -> bool { true }
    open spec fn from_spec(e: DecodeError) -> Self { WrappedMessageError::InvalidEncoding(e) }
}
impl From<DecodeError> for WrappedMessageError {
    fn from(e: DecodeError) -> (r: Self) { WrappedMessageError::InvalidEncoding(e) }
}
pub mod from_ax {
    use super::*;
    use vstd::std_specs::convert::FromSpec;
    pub broadcast axiom fn from_self_is_identity(e: WrappedMessageError)
        ensures #[trigger] <WrappedMessageError as FromSpec<WrappedMessageError>>::from_spec(e) == e;
    pub broadcast axiom fn from_self_obeys()
        ensures #[trigger] <WrappedMessageError as FromSpec<WrappedMessageError>>::obeys_from_spec();
}
pub use from_ax::*;
broadcast use {from_self_is_identity, from_self_obeys};

// ---- poll protocol shims ---------------------------------------------------------------------------------------
pub struct Context { pub armed: Ghost<bool> }
// tokio_stream BroadcastStream: contract-only shim over a ghost queue of received items
pub struct BroadcastStream<T> { pub queue: Ghost<Seq<Result<T, RecvErr>>>, pub closed: Ghost<bool> }
pub type BroadcastStreamRecvError = RecvErr;
impl<T> BroadcastStream<T> {
    #[verifier::external_body]
    pub fn poll_next_unpin(&mut self, cx: &mut Context) -> (r: Poll<Option<Result<T, RecvErr>>>)
        ensures
            final(self).closed@ == old(self).closed@,
            r is Pending ==> final(cx).armed@ && final(self).queue@ == old(self).queue@ && old(self).queue@.len() == 0,
            r is Ready && r->Ready_0 is Some ==> old(self).queue@.len() > 0 && r->Ready_0->0 == old(self).queue@[0]
                && final(self).queue@ == old(self).queue@.skip(1) && final(cx).armed@ == old(cx).armed@,
            r is Ready && r->Ready_0 is None ==> old(self).queue@.len() == 0 && old(self).closed@ && final(self).queue@ == old(self).queue@ && final(cx).armed@ == old(cx).armed@,
    { unimplemented!() }
}
pub struct TopicDropGuard { pub g: u8 }

// futures_util::StreamExt::poll_next_unpin(self, cx) is Pin::new(self).poll_next(cx) (definition); the callee is the
// extracted, verified GossipSubscription::poll_next
impl GossipSubscription {
    pub fn poll_next_unpin(&mut self, cx: &mut Context) -> (r: Poll<Option<Result<Vec<u8>, RecvErr>>>)
        ensures
            final(self).from_topic_rx.closed@ == old(self).from_topic_rx.closed@,
            r is Pending ==> final(cx).armed@ && final(self).from_topic_rx.queue@ == old(self).from_topic_rx.queue@ && old(self).from_topic_rx.queue@.len() == 0,
            r is Ready && r->Ready_0 is Some ==> old(self).from_topic_rx.queue@.len() > 0 && r->Ready_0->0 == old(self).from_topic_rx.queue@[0]
                && final(self).from_topic_rx.queue@ == old(self).from_topic_rx.queue@.skip(1) && final(cx).armed@ == old(cx).armed@,
            r is Ready && r->Ready_0 is None ==> old(self).from_topic_rx.queue@.len() == 0 && old(self).from_topic_rx.closed@ && final(self).from_topic_rx.queue@ == old(self).from_topic_rx.queue@ && final(cx).armed@ == old(cx).armed@,
    { self.poll_next(cx) }
}

// ---- specification: a wrapped message is authentic --------------------------------------------------------------
pub open spec fn signed_tuple<'a, M>(m: &'a WrappedMessage<M>) -> (u64, VerifyingKey, Timestamp, LamportTimestamp, &'a M) {
    (m.version, m.verifying_key, m.timestamp.0, m.timestamp.1, &m.body)
}
pub open spec fn wm_authentic<M>(m: WrappedMessage<M>) -> bool {
    spec_encode(signed_tuple(&m)) is Some && sig_ok(m.verifying_key, spec_encode(signed_tuple(&m))->0, m.signature)
}
// what from_bytes yields for a byte string: Some(message) iff it decodes, has the supported version and is authentic
pub open spec fn parse<M>(bytes: Seq<u8>) -> Option<WrappedMessage<M>> {
    match spec_decode::<(u64, VerifyingKey, Signature, Timestamp, LamportTimestamp, M)>(bytes) {
        None => None,
        Some(t) => {
            let m = WrappedMessage { version: t.0, verifying_key: t.1, signature: t.2, timestamp: HybridTimestamp(t.3, t.4), body: t.5 };
            if t.0 == MESSAGE_VERSION && wm_authentic(m) { Some(m) } else { None }
        }
    }
}
// queue item i is a valid message
pub open spec fn item_valid<M>(q: Seq<Result<Vec<u8>, RecvErr>>, i: int) -> bool {
    q[i] is Ok && parse::<M>(q[i]->Ok_0@) is Some
}
