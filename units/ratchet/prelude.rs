pub struct Secret<const N: usize>(pub [u8; N]);
impl<const N: usize> Secret<N> {
    pub fn from_bytes(bytes: [u8; N]) -> (r: Self) ensures r.0 == bytes { Self(bytes) }
    pub fn as_bytes(&self) -> (r: &[u8; N]) ensures *r == self.0 { &self.0 }
}
pub type AeadNonce = [u8; 12];
pub enum HkdfError { InvalidArguments }

pub uninterp spec fn spec_hkdf<const N: usize>(label: Seq<u8>, ikm: Seq<u8>) -> [u8; N];
#[verifier::external_body]
pub fn hkdf<const N: usize>(salt: &[u8], ikm: &[u8], info: Option<&[u8]>) -> (r: Result<[u8; N], HkdfError>)
    ensures r is Ok ==> r->Ok_0 == spec_hkdf::<N>(salt@, ikm@)
{ unimplemented!() }

impl vstd::std_specs::convert::FromSpecImpl<HkdfError> for RatchetError {
    open spec fn obeys_from_spec() -> bool { true }
    open spec fn from_spec(e: HkdfError) -> Self { RatchetError::Hkdf(e) }
}
impl From<HkdfError> for RatchetError {
    fn from(e: HkdfError) -> (r: Self) { RatchetError::Hkdf(e) }
}

// VecDeque::get_mut: a mutable reference to element `index` (None when out of bounds); other elements unchanged
pub assume_specification<T, A: Allocator> [VecDeque::<T, A>::get_mut] (v: &mut VecDeque<T, A>, index: usize) -> (r: Option<&mut T>)
    ensures
        index >= old(v)@.len() ==> r is None && final(v)@ == old(v)@,
        index < old(v)@.len() ==> r is Some && *(r->0) == old(v)@[index as int] && final(v)@ == old(v)@.update(index as int, *final(r->0)),
;

// opaque hkdf labels (the byte-string literals of the source)
pub uninterp spec fn spec_label(i: int) -> Seq<u8>;
#[verifier::external_body] pub fn label_nonce() -> (r: &'static [u8]) ensures r@ == spec_label(0) { b"nonce" }
#[verifier::external_body] pub fn label_key() -> (r: &'static [u8]) ensures r@ == spec_label(1) { b"key" }
#[verifier::external_body] pub fn label_chain() -> (r: &'static [u8]) ensures r@ == spec_label(2) { b"chain" }

// ---- the key chain (what sender and receiver both derive) -----------------------------------------------------------
pub open spec fn next_secret(s: Secret<MESSAGE_KEY_SIZE>) -> Secret<MESSAGE_KEY_SIZE> {
    Secret(spec_hkdf::<MESSAGE_KEY_SIZE>(spec_label(2), s.0@))
}
pub open spec fn material(s: Secret<MESSAGE_KEY_SIZE>) -> RatchetKeyMaterial {
    (Secret(spec_hkdf::<MESSAGE_KEY_SIZE>(spec_label(1), s.0@)), spec_hkdf::<12>(spec_label(0), s.0@))
}
pub open spec fn chain(init: Secret<MESSAGE_KEY_SIZE>, g: nat) -> Secret<MESSAGE_KEY_SIZE>
    decreases g
{
    if g == 0 { init } else { next_secret(chain(init, (g - 1) as nat)) }
}
// key material of generation g
pub open spec fn key_of(init: Secret<MESSAGE_KEY_SIZE>, g: nat) -> RatchetKeyMaterial { material(chain(init, g)) }

// ---- representation invariant of the decryption ratchet ---------------------------------------------------------------
pub open spec fn dr_wf(y: DecryptionRatchetState) -> bool {
    let gh = y.ratchet_head.generation as nat;
    &&& y.ratchet_head.secret == chain(y.init@, gh)
    &&& y.past_secrets@.len() <= gh
    &&& forall|i: int| 0 <= i < y.past_secrets@.len() ==> ((#[trigger] y.past_secrets@[i]) is Some ==> y.past_secrets@[i]->0 == key_of(y.init@, (gh - 1 - i) as nat))
}
// the key of generation g can still be handed out
pub open spec fn available(y: DecryptionRatchetState, g: nat) -> bool {
    let gh = y.ratchet_head.generation as nat;
    g >= gh || (gh - 1 - g < y.past_secrets@.len() && y.past_secrets@[(gh - 1 - g) as int] is Some)
}

// std blanket impl `impl<T> From<T> for T` is the identity (used by `?` when the error type is already RatchetError)
pub mod from_ax {
    use super::*;
    use vstd::std_specs::convert::FromSpec;
    pub broadcast axiom fn from_self_is_identity(e: RatchetError)
        ensures #[trigger] <RatchetError as FromSpec<RatchetError>>::from_spec(e) == e;
    pub broadcast axiom fn from_self_obeys()
        ensures #[trigger] <RatchetError as FromSpec<RatchetError>>::obeys_from_spec();
}
pub use from_ax::*;
broadcast use {from_self_is_identity, from_self_obeys};

// ---- call site: MessageGroup::decrypt ---------------------------------------------------------------------------------------
pub trait IdentityHandle: Copy + PartialEq + Eq + Hash {}
pub struct AeadError { pub e: u8 }
pub enum GroupError<ID> { DecryptionRatchet(RatchetError), Aead(AeadError), DecryptionRachetUnavailable(ID, Generation) }
impl<ID> vstd::std_specs::convert::FromSpecImpl<AeadError> for GroupError<ID> {
    open spec fn obeys_from_spec() -> bool { true }
    open spec fn from_spec(e: AeadError) -> Self { GroupError::Aead(e) }
}
impl<ID> From<AeadError> for GroupError<ID> { fn from(e: AeadError) -> (r: Self) { GroupError::Aead(e) } }
#[verifier::reject_recursive_types(ID)]
pub struct GroupState<ID> { pub decryption_ratchet: HashMap<ID, DecryptionRatchetState>, pub config: GroupConfig, pub rest: u8 }
#[verifier::reject_recursive_types(ID)]
pub struct MessageGroup<ID> { pub g: Ghost<Option<ID>> }
#[verifier::external_body]
pub fn decrypt_message(ciphertext: &[u8], ratchet_secrets: RatchetKeyMaterial) -> (r: Result<Vec<u8>, AeadError>) { unimplemented!() }
