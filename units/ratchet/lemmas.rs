// pushing the previous head's key to the front while the head advances by one never makes a key available again
pub proof fn lemma_avail_push(y: DecryptionRatchetState, y2: DecryptionRatchetState, e: Option<RatchetKeyMaterial>)
    requires
        y2.ratchet_head.generation == y.ratchet_head.generation + 1,
        y2.past_secrets@ =~= seq![e] + y.past_secrets@,
    ensures
        forall|g: nat| #[trigger] available(y2, g) ==> available(y, g),
        e is None ==> !available(y2, y.ratchet_head.generation as nat),
        // nothing else is lost: every other available key stays available
        forall|g: nat| #[trigger] available(y, g) && (e is Some || g != y.ratchet_head.generation) ==> available(y2, g),
{
    assert forall|g: nat| #[trigger] available(y, g) && (e is Some || g != y.ratchet_head.generation) implies available(y2, g) by {
        let gh = y.ratchet_head.generation as nat;
        if g < gh {
            let i = (gh - 1 - g) as int;
            assert(y2.past_secrets@[i + 1] == y.past_secrets@[i]);
        } else if g == gh {
            assert(y2.past_secrets@[0] == e);
        }
    }
    let gh = y.ratchet_head.generation as nat;
    assert forall|g: nat| #[trigger] available(y2, g) implies available(y, g) by {
        if g < gh {
            let i = (gh + 1 - 1 - g) as int;
            assert(i >= 1);
            assert(y2.past_secrets@[i] == y.past_secrets@[i - 1]);
        }
    }
    if e is None { assert(y2.past_secrets@[0] == e); }
}

// dropping keys from the back never makes a key available again
pub proof fn lemma_avail_truncate(y: DecryptionRatchetState, y2: DecryptionRatchetState, n: int)
    requires
        y2.ratchet_head.generation == y.ratchet_head.generation,
        0 <= n,
        y2.past_secrets@ =~= (if n < y.past_secrets@.len() { y.past_secrets@.subrange(0, n) } else { y.past_secrets@ }),
    ensures
        forall|g: nat| #[trigger] available(y2, g) ==> available(y, g),
        // keys whose distance from the head is inside the kept window survive
        forall|g: nat| #[trigger] available(y, g) && (g >= y.ratchet_head.generation || y.ratchet_head.generation - 1 - g < n) ==> available(y2, g),
{
}

//@ obligation name=each_generation_key_at_most_once props=C34
// From the contract of secret_for_decryption: once the key of generation g was handed out it is unavailable, and
// availability never comes back; so along any sequence of calls a generation's key is handed out at most once.
pub proof fn lemma_at_most_once(y0: DecryptionRatchetState, y1: DecryptionRatchetState, y2: DecryptionRatchetState, g: nat)
    requires
        !available(y1, g),                                                     // g was handed out by the call y0 -> y1
        forall|h: nat| #[trigger] available(y2, h) ==> available(y1, h),       // any later call y1 -> y2
    ensures !available(y2, g),                                                // so a later request for g is rejected (already_used_rejected)
{
}
