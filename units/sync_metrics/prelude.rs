// ---- shims ---------------------------------------------------------------------------------------------
pub struct VerifyingKey { pub k: u64 }
pub type NodeId = VerifyingKey;
pub trait Extensions {}
pub struct Operation<E> { pub e: E }
pub struct FromSync<E> {
    pub session_id: u64,
    pub remote: VerifyingKey,
    pub event: E,
}

// ---- ghost accounting state (R14) ------------------------------------------------------------------------
pub struct AggGhost {
    // bytes (sent, received) of each session that are part of the topic totals
    pub counted: Map<SessionId, (nat, nat)>,
    // sums of `counted` (maintained by the delta rule sum' = sum - counted[s] + counted'[s])
    pub sum_sent: nat,
    pub sum_recv: nat,
    pub started: nat,
    pub ended: nat,
}

pub open spec fn m_sent(m: Metrics) -> nat { m.sent_sync_bytes as nat + m.sent_live_bytes as nat }
pub open spec fn m_recv(m: Metrics) -> nat { m.received_sync_bytes as nat + m.received_live_bytes as nat }
pub open spec fn metrics_fit(m: Metrics) -> bool {
    &&& m_sent(m) <= u32::MAX && m_recv(m) <= u32::MAX
    &&& m.sent_sync_operations as nat + m.sent_live_operations as nat <= u32::MAX
    &&& m.received_sync_operations as nat + m.received_live_operations as nat <= u32::MAX
}
pub open spec fn counted_of(g: AggGhost, s: SessionId) -> (nat, nat) {
    if g.counted.contains_key(s) { g.counted[s] } else { (0nat, 0nat) }
}

// bytes the session has transferred according to the event (what must be in the totals after it)
pub open spec fn target_counted<E>(a: Aggregator, s: SessionId, ev: TopicLogSyncEvent<E>) -> (nat, nat) {
    match ev {
        TopicLogSyncEvent::SyncFinished { metrics } => (m_sent(metrics), m_recv(metrics)),
        TopicLogSyncEvent::SessionFinished { metrics } => (m_sent(metrics), m_recv(metrics)),
        TopicLogSyncEvent::Failed { error } =>
            if a.session_metrics@.contains_key(s) { (m_sent(a.session_metrics@[s]), m_recv(a.session_metrics@[s])) } else { counted_of(a.ghost_state@, s) },
        _ => counted_of(a.ghost_state@, s),
    }
}
pub open spec fn is_start<E>(ev: TopicLogSyncEvent<E>) -> bool { ev is SessionStarted }
pub open spec fn is_terminal<E>(ev: TopicLogSyncEvent<E>) -> bool { ev is SessionFinished || ev is Failed }
pub open spec fn event_metrics_fit<E>(ev: TopicLogSyncEvent<E>) -> bool {
    match ev {
        TopicLogSyncEvent::SyncStarted { metrics } => metrics_fit(metrics),
        TopicLogSyncEvent::OperationReceived { operation, metrics } => metrics_fit(metrics),
        TopicLogSyncEvent::SyncFinished { metrics } => metrics_fit(metrics),
        TopicLogSyncEvent::SessionFinished { metrics } => metrics_fit(metrics),
        _ => true,
    }
}

// the ghost state after an event (delta rule); a session that ended keeps its bytes in the sums
pub open spec fn ghost_after<E>(a: Aggregator, s: SessionId, ev: TopicLogSyncEvent<E>) -> AggGhost {
    let g = a.ghost_state@;
    let c = counted_of(g, s);
    let t = target_counted(a, s, ev);
    AggGhost {
        counted: if is_terminal(ev) { g.counted.remove(s) } else if ev is SyncFinished { g.counted.insert(s, t) } else { g.counted },
        sum_sent: (g.sum_sent - c.0 + t.0) as nat,
        sum_recv: (g.sum_recv - c.1 + t.1) as nat,
        started: if is_start(ev) { g.started + 1 } else { g.started },
        ended: if is_terminal(ev) { g.ended + 1 } else { g.ended },
    }
}

// what the real bookkeeping field says is already in the totals for session s
pub open spec fn acc_of(a: Aggregator, s: SessionId) -> (nat, nat) {
    if a.accounted_bytes@.contains_key(s) { (a.accounted_bytes@[s].0 as nat, a.accounted_bytes@[s].1 as nat) } else { (0nat, 0nat) }
}

// THE INVARIANT OF THE PROPERTY: totals == sum of per-session bytes, running == started - ended
pub open spec fn agg_inv(a: Aggregator) -> bool {
    let g = a.ghost_state@;
    &&& a.total_bytes_sent as nat == g.sum_sent
    &&& a.total_bytes_received as nat == g.sum_recv
    &&& a.running_sessions as int == g.started - g.ended
    &&& forall|s: SessionId| #[trigger] a.session_metrics@.contains_key(s) ==> metrics_fit(a.session_metrics@[s])
    // the ghost per-session amounts are exactly what the real bookkeeping field holds
    &&& forall|s: SessionId| #![trigger g.counted.contains_key(s)] #![trigger a.accounted_bytes@.contains_key(s)]
            g.counted.contains_key(s) <==> a.accounted_bytes@.contains_key(s)
    // ... and never exceed the session's latest reported metrics
    &&& forall|s: SessionId| #[trigger] a.accounted_bytes@.contains_key(s) ==>
            g.counted[s] == (a.accounted_bytes@[s].0 as nat, a.accounted_bytes@[s].1 as nat)
            && a.session_metrics@.contains_key(s)
            && m_sent(a.session_metrics@[s]) >= a.accounted_bytes@[s].0 && m_recv(a.session_metrics@[s]) >= a.accounted_bytes@[s].1
}
pub open spec fn event_metrics<E>(ev: TopicLogSyncEvent<E>) -> Option<Metrics> {
    match ev {
        TopicLogSyncEvent::SyncStarted { metrics } => Some(metrics),
        TopicLogSyncEvent::OperationReceived { operation, metrics } => Some(metrics),
        TopicLogSyncEvent::SyncFinished { metrics } => Some(metrics),
        TopicLogSyncEvent::SessionFinished { metrics } => Some(metrics),
        _ => None,
    }
}

// derived Default of Metrics: every counter is zero (Rust reference: derive(Default) uses the field defaults; u32::default() == 0)
pub assume_specification [<Metrics as core::default::Default>::default] () -> (r: Metrics)
    ensures metrics_fit(r), m_sent(r) == 0, m_recv(r) == 0;

// derived Clone of Metrics (plain u32 fields): an equal value (the derive is dropped by R1 and re-introduced here)
impl Clone for Metrics {
    #[verifier::external_body]
    fn clone(&self) -> (r: Self)
        ensures r == *self
    { unimplemented!() }
}
