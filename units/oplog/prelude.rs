// ---- plain data + crypto leaves ---------------------------------------------------------------------------
pub type SeqNum = u32;

#[derive(Clone, Copy, PartialEq, Eq, Structural)]
pub struct Hash(pub [u8; 32]);
#[derive(Clone, Copy, PartialEq, Eq, Structural)]
pub struct VerifyingKey(pub [u8; 32]);
#[derive(Clone, Copy, PartialEq, Eq, Structural)]
pub struct Signature(pub [u8; 64]);

pub trait Extensions: Clone {}
pub trait LogId: Clone {}

pub uninterp spec fn sig_ok(key: VerifyingKey, bytes: Seq<u8>, sig: Signature) -> bool;
pub uninterp spec fn digest(bytes: Seq<u8>) -> Hash;
pub uninterp spec fn enc<E>(h: Header<E>) -> Seq<u8>;

impl VerifyingKey {
    #[verifier::external_body]
    pub fn verify(&self, bytes: &[u8], signature: &Signature) -> (r: bool)
        ensures r == sig_ok(*self, bytes@, *signature)
    { unimplemented!() }
}

// `impl AsRef<[u8]>` arguments of Hash::digest
pub trait AsBytes { spec fn bytes(&self) -> Seq<u8>; }
impl AsBytes for Vec<u8> { open spec fn bytes(&self) -> Seq<u8> { self@ } }
impl AsBytes for &Vec<u8> { open spec fn bytes(&self) -> Seq<u8> { (**self)@ } }

impl Hash {
    #[verifier::external_body]
    pub fn digest<B: AsBytes>(buf: B) -> (r: Hash)
        ensures r == digest(buf.bytes())
    { unimplemented!() }
}

impl<E: Extensions> Clone for Header<E> {
    #[verifier::external_body]
    fn clone(&self) -> (r: Self) ensures r == *self { unimplemented!() }
}

impl<E: Extensions> Header<E> {
    // CBOR encoding of the header (serde + ciborium): a deterministic function of the header value
    #[verifier::external_body]
    pub fn to_bytes(&self) -> (r: Vec<u8>)
        ensures r@ == enc(*self)
    { unimplemented!() }
}

#[verifier::external_body]
pub fn verif_opaque_string() -> String { unimplemented!() }

// `?` on OperationError inside a function returning IngestError (thiserror #[from])
impl vstd::std_specs::convert::FromSpecImpl<OperationError> for IngestError {
    open spec fn obeys_from_spec() -> bool { true }
    open spec fn from_spec(e: OperationError) -> Self { IngestError::InvalidOperation(e) }
}
impl From<OperationError> for IngestError {
    fn from(e: OperationError) -> (r: Self) { IngestError::InvalidOperation(e) }
}

// ---- specification of a well-formed, authentic operation (C01) ------------------------------------------
pub open spec fn unsigned<E>(h: Header<E>) -> Header<E> { Header { signature: None, ..h } }
pub open spec fn sig_valid<E>(h: Header<E>) -> bool {
    h.signature is Some && sig_ok(h.verifying_key, enc(unsigned(h)), h.signature->0)
}
pub open spec fn hdr_ok<E>(h: Header<E>) -> bool {
    &&& sig_valid(h)
    &&& h.version == 1
    &&& (h.payload_hash is Some <==> h.payload_size > 0)
    &&& (h.backlink is Some <==> h.seq_num > 0)
}
pub open spec fn body_bytes<E>(o: Operation<E>) -> Seq<u8> { (o.body->0).0@ }
pub open spec fn op_ok<E>(o: Operation<E>) -> bool {
    &&& hdr_ok(o.header)
    // an attached body matches the claimed hash and size (hence a body can only be attached to a header that claims one)
    &&& (o.body is Some ==> (o.header.payload_size as nat == body_bytes(o).len()
            && o.header.payload_size > 0 && o.header.payload_hash == Some(digest(body_bytes(o)))))
}

// ---- specification of log integrity (C03) -------------------------------------------------------------------
pub open spec fn links<E>(p: Header<E>, h: Header<E>) -> bool {
    &&& p.verifying_key == h.verifying_key
    &&& p.seq_num + 1 == h.seq_num
    &&& h.backlink == Some(digest(enc(p)))
}

// ---- contract-only store (assumed contract of p2panda-store's traits) -----------------------------------------
// A store state is an abstract token; its components are read through uninterpreted projections and
// changed through uninterpreted constructors related by the axioms below (an algebraic specification).
pub mod store_ax {
    use super::*;
    pub struct Tok { pub n: int }
    pub uninterp spec fn t_ops<T, ID>(t: Tok) -> Map<ID, T>;           // operation id -> operation
    pub uninterp spec fn t_log<ID, L>(t: Tok) -> Map<ID, L>;           // operation id -> log it was inserted under
    pub uninterp spec fn t_assoc<TP, A, L>(t: Tok) -> Set<(TP, A, L)>; // topic associations
    pub uninterp spec fn t_insert<T, ID, L>(t: Tok, id: ID, op: T, log: L) -> Tok;
    pub uninterp spec fn t_associate<TP, A, L>(t: Tok, tp: TP, a: A, l: L) -> Tok;

    // insert_operation: adds (id -> op, log) unless the id already exists ("INSERT OR IGNORE"); touches nothing else
    pub broadcast axiom fn ax_insert_ops<T, ID, L>(t: Tok, id: ID, op: T, log: L)
        ensures #[trigger] t_ops::<T, ID>(t_insert(t, id, op, log)) == (if t_ops::<T, ID>(t).contains_key(id) { t_ops::<T, ID>(t) } else { t_ops::<T, ID>(t).insert(id, op) });
    pub broadcast axiom fn ax_insert_log<T, ID, L>(t: Tok, id: ID, op: T, log: L)
        ensures #[trigger] t_log::<ID, L>(t_insert(t, id, op, log)) == (if t_ops::<T, ID>(t).contains_key(id) { t_log::<ID, L>(t) } else { t_log::<ID, L>(t).insert(id, log) });
    pub broadcast axiom fn ax_insert_assoc<T, ID, L, TP, A, L2>(t: Tok, id: ID, op: T, log: L)
        ensures #[trigger] t_assoc::<TP, A, L2>(t_insert(t, id, op, log)) == t_assoc::<TP, A, L2>(t);
    // associate: adds the triple; touches nothing else
    pub broadcast axiom fn ax_assoc_assoc<TP, A, L>(t: Tok, tp: TP, a: A, l: L)
        ensures #[trigger] t_assoc::<TP, A, L>(t_associate(t, tp, a, l)) == t_assoc::<TP, A, L>(t).insert((tp, a, l));
    pub broadcast axiom fn ax_assoc_ops<TP, A, L, T, ID>(t: Tok, tp: TP, a: A, l: L)
        ensures #[trigger] t_ops::<T, ID>(t_associate(t, tp, a, l)) == t_ops::<T, ID>(t);
    pub broadcast axiom fn ax_assoc_log<TP, A, L, ID, L2>(t: Tok, tp: TP, a: A, l: L)
        ensures #[trigger] t_log::<ID, L2>(t_associate(t, tp, a, l)) == t_log::<ID, L2>(t);
}
pub use store_ax::*;
broadcast use {ax_insert_ops, ax_insert_log, ax_insert_assoc, ax_assoc_assoc, ax_assoc_ops, ax_assoc_log};

// what the log store needs to know about an entry
pub trait OpLike<A> {
    spec fn op_author(&self) -> A;
    spec fn op_seq(&self) -> nat;
}
impl<E> OpLike<VerifyingKey> for Operation<E> {
    open spec fn op_author(&self) -> VerifyingKey { self.header.verifying_key }
    open spec fn op_seq(&self) -> nat { self.header.seq_num as nat }
}

// id is an entry of the log (a, l) in store state t
pub open spec fn in_log<T: OpLike<A>, A, L, ID>(t: Tok, a: A, l: L, id: ID) -> bool {
    &&& t_ops::<T, ID>(t).contains_key(id)
    &&& t_log::<ID, L>(t).contains_key(id)
    &&& t_ops::<T, ID>(t)[id].op_author() == a
    &&& t_log::<ID, L>(t)[id] == l
}
// r is "the latest entry" of log (a, l): none if the log is empty, otherwise an entry with the greatest seq_num
pub open spec fn latest_spec<T: OpLike<A>, A, L, ID>(t: Tok, a: A, l: L, r: Option<T>) -> bool {
    match r {
        None => forall|id: ID| !#[trigger] in_log::<T, A, L, ID>(t, a, l, id),
        Some(op) => (exists|id: ID| #[trigger] in_log::<T, A, L, ID>(t, a, l, id) && t_ops::<T, ID>(t)[id] == op)
            && (forall|id2: ID| #[trigger] in_log::<T, A, L, ID>(t, a, l, id2) ==> t_ops::<T, ID>(t)[id2].op_seq() <= op.op_seq()),
    }
}

pub trait Transaction {
    type Error;
    type Permit;
    spec fn committed(&self) -> Tok;   // durable state
    spec fn txview(&self) -> Tok;      // state seen inside the open transaction
    spec fn in_tx(&self) -> bool;
    fn begin(&mut self) -> (r: Result<Self::Permit, Self::Error>)
        requires !old(self).in_tx(),
        ensures
            final(self).committed() == old(self).committed(),
            r is Ok ==> final(self).in_tx() && final(self).txview() == old(self).committed(),
            r is Err ==> !final(self).in_tx();
    fn rollback(&mut self, permit: Self::Permit) -> (r: Result<(), Self::Error>)
        requires old(self).in_tx(),
        ensures final(self).committed() == old(self).committed(), !final(self).in_tx();
    fn commit(&mut self, permit: Self::Permit) -> (r: Result<(), Self::Error>)
        requires old(self).in_tx(),
        ensures
            !final(self).in_tx(),
            r is Ok ==> final(self).committed() == old(self).txview(),
            r is Err ==> final(self).committed() == old(self).committed();
}

pub trait OperationStore<T, ID>: Transaction {
    type OpError;
    fn has_operation_tx(&mut self, id: &ID) -> (r: Result<bool, Self::OpError>)
        requires old(self).in_tx(),
        ensures
            final(self).in_tx(), final(self).committed() == old(self).committed(), final(self).txview() == old(self).txview(),
            r is Ok ==> r->Ok_0 == t_ops::<T, ID>(old(self).txview()).contains_key(*id);
    fn get_operation_tx(&mut self, id: &ID) -> (r: Result<Option<T>, Self::OpError>)
        requires old(self).in_tx(),
        ensures
            final(self).in_tx(), final(self).committed() == old(self).committed(), final(self).txview() == old(self).txview(),
            r is Ok ==> r->Ok_0 == (if t_ops::<T, ID>(old(self).txview()).contains_key(*id) { Some(t_ops::<T, ID>(old(self).txview())[*id]) } else { None::<T> });
    fn insert_operation<L: LogId>(&mut self, id: &ID, operation: &T, collection_id: &L) -> (r: Result<bool, Self::OpError>)
        requires old(self).in_tx(),
        ensures
            final(self).in_tx(), final(self).committed() == old(self).committed(),
            r is Ok ==> final(self).txview() == t_insert(old(self).txview(), *id, *operation, *collection_id),
            r is Err ==> final(self).txview() == old(self).txview();
}

pub trait LogStore<T: OpLike<A>, A, L, S, ID>: Transaction {
    type LogError;
    fn get_latest_entry_tx(&mut self, author: &A, log_id: &L) -> (r: Result<Option<T>, Self::LogError>)
        requires old(self).in_tx(),
        ensures
            final(self).in_tx(), final(self).committed() == old(self).committed(), final(self).txview() == old(self).txview(),
            r is Ok ==> latest_spec::<T, A, L, ID>(old(self).txview(), *author, *log_id, r->Ok_0);
}

pub trait TopicStore<TP, A, L>: Transaction {
    type TopicError;
    fn associate(&mut self, topic: &TP, author: &A, data_id: &L) -> (r: Result<bool, Self::TopicError>)
        requires old(self).in_tx(),
        ensures
            final(self).in_tx(), final(self).committed() == old(self).committed(),
            r is Ok ==> final(self).txview() == t_associate(old(self).txview(), *topic, *author, *data_id),
            r is Err ==> final(self).txview() == old(self).txview();
}

// the committed store after a successful ingest of `op` into `log` under `topic`
pub open spec fn after_ingest<E, L, TP>(t: Tok, op: Operation<E>, log: L, topic: TP) -> Tok {
    t_associate(t_insert(t, op.hash, op, log), topic, op.header.verifying_key, log)
}
pub open spec fn latest_header<E, L>(t: Tok, a: VerifyingKey, l: L, p: Option<Header<E>>) -> bool {
    match p {
        None => latest_spec::<Operation<E>, VerifyingKey, L, Hash>(t, a, l, None),
        Some(h) => exists|o: Operation<E>| #[trigger] latest_spec::<Operation<E>, VerifyingKey, L, Hash>(t, a, l, Some(o)) && o.header == h,
    }
}

// ---- "the operation extends its log" (C03) and "never below the head" (C05) ------------------------------------
pub open spec fn extends<E>(past: Option<Header<E>>, h: Header<E>, prune_flag: bool) -> bool {
    if h.seq_num > 0 {
        if !prune_flag {
            // hash-linked, gap-free: backlinks to the entry directly before it
            past is Some && links(past->0, h)
        } else {
            // a prune point needs no stored predecessor, but never re-enters below the current head
            past is Some ==> h.seq_num > (past->0).seq_num
        }
    } else {
        // first entry of a log: only if the log is empty
        past is None
    }
}
pub open spec fn opt_deref<E>(p: Option<&Header<E>>) -> Option<Header<E>> {
    match p { Some(x) => Some(*x), None => None }
}
pub open spec fn the_op<T, E>(operation: &T) -> Operation<E> { *borrowed_ref::<T, Operation<E>>(operation) }
// all stored sequence numbers are below u32::MAX (the real `+ 1` would overflow at 2^32 - 1 entries)
pub open spec fn seqs_bounded<E>(t: Tok) -> bool {
    forall|id: Hash| #[trigger] t_ops::<Operation<E>, Hash>(t).contains_key(id) ==> t_ops::<Operation<E>, Hash>(t)[id].header.seq_num < u32::MAX
}
