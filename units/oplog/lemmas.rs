// ---- C01: tampering is rejected unless a cryptographic assumption is broken ------------------------------
// `signed(k, m)`: the holder of key k produced a signature over message m (ghost fact about the world).
pub uninterp spec fn signed(k: VerifyingKey, m: Seq<u8>) -> bool;
pub open spec fn forgery(k: VerifyingKey, m: Seq<u8>, s: Signature) -> bool { sig_ok(k, m, s) && !signed(k, m) }
pub open spec fn digest_collision(a: Seq<u8>, b: Seq<u8>) -> bool { a != b && digest(a) == digest(b) }

//@ obligation name=tampered_header_is_a_forgery props=C01
// Any accepted operation whose header (any field other than the signature itself) is not one its claimed
// author signed is an existential forgery: single-field tampering of a valid header changes
// enc(unsigned(h)) (injective CBOR encoding, listed assumption) and therefore falls under this lemma.
pub proof fn lemma_tampered_header_is_a_forgery<E>(o: Operation<E>)
    requires op_ok(o), !signed(o.header.verifying_key, enc(unsigned(o.header))),
    ensures forgery(o.header.verifying_key, enc(unsigned(o.header)), o.header.signature->0),
{
}

//@ obligation name=tampered_body_is_a_collision props=C01
// An accepted operation carrying a body different from the authentic one under the same (authentic) header
// exhibits a BLAKE3 collision.
pub proof fn lemma_tampered_body_is_a_collision<E>(o: Operation<E>, o2: Operation<E>)
    requires op_ok(o), op_ok(o2), o.header == o2.header, o.body is Some, o2.body is Some, body_bytes(o) != body_bytes(o2),
    ensures digest_collision(body_bytes(o), body_bytes(o2)),
{
}

//@ obligation name=body_only_with_claimed_payload props=C01
// A body can only be attached to a header that claims one (size > 0 and a payload hash).
pub proof fn lemma_body_needs_claim<E>(o: Operation<E>)
    requires op_ok(o), o.body is Some,
    ensures o.header.payload_size > 0 && o.header.payload_hash is Some && body_bytes(o).len() > 0,
{
}

// ---- C03 / C05: consequences of the ingest contract for the stored log -------------------------------------
pub open spec fn log_unique_seq<E, L>(t: Tok, a: VerifyingKey, l: L) -> bool {
    forall|i: Hash, j: Hash| #[trigger] in_log::<Operation<E>, VerifyingKey, L, Hash>(t, a, l, i) && #[trigger] in_log::<Operation<E>, VerifyingKey, L, Hash>(t, a, l, j)
        && t_ops::<Operation<E>, Hash>(t)[i].header.seq_num == t_ops::<Operation<E>, Hash>(t)[j].header.seq_num ==> i == j
}
pub open spec fn strictly_above_log<E, L>(t: Tok, a: VerifyingKey, l: L, seq: SeqNum) -> bool {
    forall|id: Hash| #[trigger] in_log::<Operation<E>, VerifyingKey, L, Hash>(t, a, l, id) ==> t_ops::<Operation<E>, Hash>(t)[id].header.seq_num < seq
}

//@ obligation name=ingest_keeps_seq_unique_and_height_growing props=C03,C05
// From the postconditions of ingest_operation (inserted_exactly + never_below_head): sequence numbers of the
// log stay unique, every old entry is still there, and the new entry is the new maximum (height never decreases).
pub proof fn lemma_ingest_keeps_log_wellformed<E, L, TP>(t: Tok, op: Operation<E>, log: L, topic: TP)
    requires
        log_unique_seq::<E, L>(t, op.header.verifying_key, log),
        !t_ops::<Operation<E>, Hash>(t).contains_key(op.hash),
        strictly_above_log::<E, L>(t, op.header.verifying_key, log, op.header.seq_num),
    ensures
        log_unique_seq::<E, L>(after_ingest(t, op, log, topic), op.header.verifying_key, log),
        in_log::<Operation<E>, VerifyingKey, L, Hash>(after_ingest(t, op, log, topic), op.header.verifying_key, log, op.hash),
        forall|id: Hash| #[trigger] in_log::<Operation<E>, VerifyingKey, L, Hash>(t, op.header.verifying_key, log, id) ==> in_log::<Operation<E>, VerifyingKey, L, Hash>(after_ingest(t, op, log, topic), op.header.verifying_key, log, id),
        forall|id: Hash| #[trigger] in_log::<Operation<E>, VerifyingKey, L, Hash>(after_ingest(t, op, log, topic), op.header.verifying_key, log, id) ==> t_ops::<Operation<E>, Hash>(after_ingest(t, op, log, topic))[id].header.seq_num <= op.header.seq_num,
{
    let t1 = t_insert(t, op.hash, op, log);
    let t2 = t_associate(t1, topic, op.header.verifying_key, log);
    broadcast use {ax_insert_ops, ax_insert_log, ax_assoc_ops, ax_assoc_log};
    assert(t_ops::<Operation<E>, Hash>(t2) == t_ops::<Operation<E>, Hash>(t).insert(op.hash, op));
    assert(t_log::<Hash, L>(t2) == t_log::<Hash, L>(t).insert(op.hash, log));
    assert forall|id: Hash| #[trigger] in_log::<Operation<E>, VerifyingKey, L, Hash>(t2, op.header.verifying_key, log, id)
        implies id == op.hash || in_log::<Operation<E>, VerifyingKey, L, Hash>(t, op.header.verifying_key, log, id) by {}
}
