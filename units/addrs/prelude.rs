// ---- shims -----------------------------------------------------------------------------------------------------
#[derive(Clone, Copy, PartialEq, Eq, Structural)]
pub struct VerifyingKey(pub [u8; 32]);
pub type NodeId = VerifyingKey;
#[derive(Clone, Copy, PartialEq, Eq, Structural)]
pub struct Signature(pub [u8; 64]);
pub struct NodeMetrics { pub failed: u32 }
pub struct EncodeError { pub e: u8 }
#[derive(Clone, Copy, PartialEq, Eq, Structural)]
pub struct PublicKey(pub [u8; 32]);
pub struct EndpointAddr { pub id: PublicKey }

pub uninterp spec fn sig_ok(key: VerifyingKey, bytes: Seq<u8>, sig: Signature) -> bool;
pub uninterp spec fn spec_to_verifying_key(k: PublicKey) -> VerifyingKey;
pub uninterp spec fn enc_unsigned(ts: HybridTimestamp, addrs: Seq<TransportAddress>) -> Seq<u8>;
pub uninterp spec fn enc_fails(ts: HybridTimestamp, addrs: Seq<TransportAddress>) -> bool;

impl VerifyingKey {
    #[verifier::external_body]
    pub fn verify(&self, bytes: &[u8], signature: &Signature) -> (r: bool)
        ensures r == sig_ok(*self, bytes@, *signature)
    { unimplemented!() }
}
#[verifier::external_body]
pub fn to_verifying_key(key: PublicKey) -> (r: VerifyingKey)
    ensures r == spec_to_verifying_key(key)
{ unimplemented!() }

impl UnsignedTransportInfo {
    // CBOR encoding of (timestamp, addresses): deterministic; may fail
    #[verifier::external_body]
    pub fn to_bytes(&self) -> (r: Result<Vec<u8>, NodeInfoError>)
        ensures
            enc_fails(self.timestamp, self.addresses@) ==> r is Err && r->Err_0 is Encode,
            !enc_fails(self.timestamp, self.addresses@) ==> r is Ok && r->Ok_0@ == enc_unsigned(self.timestamp, self.addresses@),
    { unimplemented!() }
}
impl Clone for TransportAddress {
    #[verifier::external_body]
    fn clone(&self) -> (r: Self) ensures r == *self { unimplemented!() }
}
// derived lexicographic order of HybridTimestamp(Timestamp(u64), LamportTimestamp(u64))
pub open spec fn ht_lt(a: HybridTimestamp, b: HybridTimestamp) -> bool {
    a.0.0 < b.0.0 || (a.0.0 == b.0.0 && a.1.0 < b.1.0)
}
impl PartialOrdSpecImpl for Timestamp {
    open spec fn obeys_partial_cmp_spec() -> bool { true }
    open spec fn partial_cmp_spec(&self, other: &Timestamp) -> Option<Ordering> {
        if self.0 < other.0 { Some(Ordering::Less) } else if self.0 == other.0 { Some(Ordering::Equal) } else { Some(Ordering::Greater) }
    }
}
impl PartialOrdSpecImpl for LamportTimestamp {
    open spec fn obeys_partial_cmp_spec() -> bool { true }
    open spec fn partial_cmp_spec(&self, other: &LamportTimestamp) -> Option<Ordering> {
        if self.0 < other.0 { Some(Ordering::Less) } else if self.0 == other.0 { Some(Ordering::Equal) } else { Some(Ordering::Greater) }
    }
}
impl PartialOrdSpecImpl for HybridTimestamp {
    open spec fn obeys_partial_cmp_spec() -> bool { true }
    open spec fn partial_cmp_spec(&self, other: &HybridTimestamp) -> Option<Ordering> {
        if ht_lt(*self, *other) { Some(Ordering::Less) } else if *self == *other { Some(Ordering::Equal) } else { Some(Ordering::Greater) }
    }
}

// ---- specification: authenticity of a transport record for node `id` -------------------------------------------
pub open spec fn addr_ok(a: TransportAddress, id: NodeId) -> bool {
    match a { TransportAddress::Iroh(e) => spec_to_verifying_key(e.id) == id }
}
pub open spec fn all_addrs_ok(addrs: Seq<TransportAddress>, id: NodeId) -> bool {
    forall|i: int| 0 <= i < addrs.len() ==> addr_ok(#[trigger] addrs[i], id)
}
pub open spec fn auth(info: TransportInfo, id: NodeId) -> bool {
    match info {
        TransportInfo::Authenticated(a) => !enc_fails(a.timestamp, a.addresses@) && sig_ok(id, enc_unsigned(a.timestamp, a.addresses@), a.signature),
        TransportInfo::Trusted(t) => all_addrs_ok(t.addresses@, id),
    }
}
pub open spec fn ts_of(info: TransportInfo) -> HybridTimestamp {
    match info { TransportInfo::Authenticated(a) => a.timestamp, TransportInfo::Trusted(t) => t.timestamp }
}

// ---- remaining constructors of UnsignedTransportInfo (contract-only; not needed by the property, present so that callers of
// them inside the extracted functions stay within the unit). `from_addrs` de-duplicates per transport type: its result is
// an uninterpreted function of the input list (nothing is assumed about it, in particular NOT that it keeps the list).
pub uninterp spec fn dedup_by_kind(a: Seq<TransportAddress>) -> Seq<TransportAddress>;
impl UnsignedTransportInfo {
    #[verifier::external_body]
    pub fn new() -> (r: Self) ensures r.addresses@.len() == 0 { unimplemented!() }
    #[verifier::external_body]
    pub fn from_addrs(addrs: Vec<TransportAddress>) -> (r: Self) ensures r.addresses@ == dedup_by_kind(addrs@) { unimplemented!() }
    #[verifier::external_body]
    pub fn add_addr(&mut self, addr: TransportAddress)
        ensures final(self).timestamp == old(self).timestamp
    { unimplemented!() }
}

// ---- address-book actor: contract-only store, reply port, watchers -----------------------------------------------------------
pub struct SqliteError { pub e: u8 }
pub struct ActorProcessingErr { pub e: u8 }
impl vstd::std_specs::convert::FromSpecImpl<SqliteError> for ActorProcessingErr {
    open spec fn obeys_from_spec() -> bool { true }
    open spec fn from_spec(e: SqliteError) -> Self { ActorProcessingErr { e: e.e } }
}
impl From<SqliteError> for ActorProcessingErr { fn from(e: SqliteError) -> (r: Self) { ActorProcessingErr { e: e.e } } }
pub struct Topic { pub t: [u8; 32] }
pub struct WatchedNodeInfo { pub w: u8 }
pub struct WatchedTopic { pub w: u8 }
pub struct WatchedNodeTopics { pub w: u8 }
pub struct WatcherSet<K, W> { pub g: Ghost<Option<(K, W)>> }
impl<K, W> WatcherSet<K, W> {
    // informs subscribers (opaque; not part of the property)
    #[verifier::external_body]
    pub fn update<V>(&mut self, key: &K, value: V) { unimplemented!() }
}
// reply port: ghost record of what was answered
pub struct RpcReplyPort<T> { pub sent: Ghost<Option<T>> }
impl<T> RpcReplyPort<T> {
    #[verifier::external_body]
    pub fn send(&mut self, v: T) -> (r: Result<(), u8>)
        ensures final(self).sent@ == Some(v)
    { unimplemented!() }
}
impl Clone for NodeInfo {
    #[verifier::external_body]
    fn clone(&self) -> (r: Self) ensures r == *self { unimplemented!() }
}
impl NodeMetrics {
    #[verifier::external_body]
    pub fn default() -> (r: Self) { unimplemented!() }
}
pub struct TransactionPermit { pub p: u8 }
pub struct SqliteStore { pub handle: u64 }
impl SqliteStore {
    pub uninterp spec fn committed(&self) -> Map<NodeId, NodeInfo>;   // durable address book
    pub uninterp spec fn txview(&self) -> Map<NodeId, NodeInfo>;      // inside the open transaction
    pub uninterp spec fn in_tx(&self) -> bool;
    #[verifier::external_body]
    pub fn begin(&mut self) -> (r: Result<TransactionPermit, SqliteError>)
        requires !old(self).in_tx(),
        ensures final(self).committed() == old(self).committed(),
            r is Ok ==> final(self).in_tx() && final(self).txview() == old(self).committed(),
            r is Err ==> !final(self).in_tx(),
    { unimplemented!() }
    #[verifier::external_body]
    pub fn commit(&mut self, permit: TransactionPermit) -> (r: Result<(), SqliteError>)
        requires old(self).in_tx(),
        ensures !final(self).in_tx(),
            r is Ok ==> final(self).committed() == old(self).txview(),
            r is Err ==> final(self).committed() == old(self).committed(),
    { unimplemented!() }
    // AddressBookStore::insert_node_info inside a transaction: upsert under the info's node id; true iff newly inserted
    #[verifier::external_body]
    pub fn insert_node_info(&mut self, info: NodeInfo) -> (r: Result<bool, SqliteError>)
        requires old(self).in_tx(),
        ensures final(self).in_tx(), final(self).committed() == old(self).committed(),
            r is Ok ==> final(self).txview() == old(self).txview().insert(info.node_id, info),
            r is Err ==> final(self).txview() == old(self).txview(),
    { unimplemented!() }
}
// read-only queries of the address book store as trait methods (so that both `store.node_info(..)` and the UFCS form
// `AddressBookStore::<NodeId, NodeInfo>::node_info(&store, ..)` used elsewhere in actor.rs resolve)
pub trait AddressBookStore<ID, N> {
    spec fn book(&self) -> Map<ID, N>;
    spec fn busy(&self) -> bool;
    fn node_info(&self, id: &ID) -> (r: Result<Option<N>, SqliteError>)
        requires !self.busy(),
        ensures r is Ok ==> r->Ok_0 == (if self.book().contains_key(*id) { Some(self.book()[*id]) } else { None::<N> });
}
impl AddressBookStore<NodeId, NodeInfo> for SqliteStore {
    open spec fn book(&self) -> Map<NodeId, NodeInfo> { self.committed() }
    open spec fn busy(&self) -> bool { self.in_tx() }
    #[verifier::external_body]
    fn node_info(&self, id: &NodeId) -> (r: Result<Option<NodeInfo>, SqliteError>) { unimplemented!() }
}
impl NodeInfo {
    // NodeInfo::is_stale: derived from the local connection metrics (opaque here: any value)
    #[verifier::external_body]
    pub fn is_stale(&self) -> (r: bool) { unimplemented!() }
}
// the stored transport record of a node, if any
pub open spec fn stored_transports(m: Map<NodeId, NodeInfo>, id: NodeId) -> Option<TransportInfo> {
    if m.contains_key(id) { m[id].transports } else { None }
}
