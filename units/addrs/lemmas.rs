// the state transition proved for NodeInfo::update_transports, as a function
pub open spec fn upd(cur: Option<TransportInfo>, other: TransportInfo, id: NodeId) -> Option<TransportInfo> {
    if !auth(other, id) { cur }
    else if cur is None || ht_lt(ts_of(cur->0), ts_of(other)) { Some(other) }
    else { cur }
}
pub open spec fn fold_upd(s: Seq<TransportInfo>, id: NodeId) -> Option<TransportInfo>
    decreases s.len()
{
    if s.len() == 0 { None } else { upd(fold_upd(s.drop_last(), id), s.last(), id) }
}

//@ obligation name=stored_record_is_newest_authentic props=C27
// Whatever order records arrive in, the stored record is an authentic one with maximal timestamp among all
// authentic records received (hence THE newest when timestamps are distinct), and forged or mismatched
// records never enter.
pub proof fn lemma_stored_is_newest_authentic(s: Seq<TransportInfo>, id: NodeId)
    ensures
        match fold_upd(s, id) {
            None => forall|i: int| 0 <= i < s.len() ==> !auth(#[trigger] s[i], id),
            Some(r) => auth(r, id) && (exists|i: int| 0 <= i < s.len() && #[trigger] s[i] == r)
                && forall|i: int| 0 <= i < s.len() && auth(#[trigger] s[i], id) ==> !ht_lt(ts_of(r), ts_of(s[i])),
        },
    decreases s.len()
{
    if s.len() > 0 {
        let p = s.drop_last();
        lemma_stored_is_newest_authentic(p, id);
        let cur = fold_upd(p, id);
        let o = s.last();
        assert(forall|i: int| 0 <= i < p.len() ==> #[trigger] p[i] == s[i]);
        match upd(cur, o, id) {
            None => {
                assert forall|i: int| 0 <= i < s.len() implies !auth(#[trigger] s[i], id) by {
                    if i < p.len() { assert(p[i] == s[i]); }
                }
            }
            Some(r) => {
                if r == o && auth(o, id) && (cur is None || ht_lt(ts_of(cur->0), ts_of(o))) {
                    assert(s[s.len() - 1] == r);
                    assert forall|i: int| 0 <= i < s.len() && auth(#[trigger] s[i], id) implies !ht_lt(ts_of(r), ts_of(s[i])) by {
                        if i < p.len() { assert(p[i] == s[i]); }
                    }
                } else {
                    let j = choose|j: int| 0 <= j < p.len() && #[trigger] p[j] == r;
                    assert(s[j] == r);
                    assert forall|i: int| 0 <= i < s.len() && auth(#[trigger] s[i], id) implies !ht_lt(ts_of(r), ts_of(s[i])) by {
                        if i < p.len() { assert(p[i] == s[i]); }
                    }
                }
            }
        }
    }
}
