// Lexicographic order of the derived `Ord` on HybridTimestamp(Timestamp(u64), LamportTimestamp(u64)).
pub open spec fn ht_lt(a: HybridTimestamp, b: HybridTimestamp) -> bool {
    a.0.0 < b.0.0 || (a.0.0 == b.0.0 && a.1.0 < b.1.0)
}

// The wall clock: any value at all.
impl Timestamp {
    #[verifier::external_body]
    pub fn now() -> (r: Self) {
        unimplemented!()
    }
}

// `LamportTimestamp::default()` is the derived Default: LamportTimestamp(0).
impl LamportTimestamp {
    pub open spec fn spec_zero() -> Self { LamportTimestamp(0) }
}
pub assume_specification [<LamportTimestamp as core::default::Default>::default] () -> (r: LamportTimestamp)
    ensures r == LamportTimestamp(0u64);

// Assumed meaning of `#[derive(PartialOrd)]` on the single-field tuple struct Timestamp(u64):
// the order of the field (Rust reference, derive(PartialOrd): lexicographic over fields).
impl PartialOrdSpecImpl for Timestamp {
    open spec fn obeys_partial_cmp_spec() -> bool { true }
    open spec fn partial_cmp_spec(&self, other: &Timestamp) -> Option<Ordering> {
        if self.0 < other.0 { Some(Ordering::Less) } else if self.0 == other.0 { Some(Ordering::Equal) } else { Some(Ordering::Greater) }
    }
}

// shims for the caller in p2panda-net/src/addrs.rs (plain data)
pub struct Signature { pub bytes: [u8; 64] }
pub struct EndpointAddr { pub id: [u8; 32] }
