pub struct PhantomData<X> { pub g: Ghost<Option<X>> }
pub struct Infallible { pub never: u8 }
pub const PUBLIC_KEY_SIZE: usize = 32;
#[derive(Clone, Copy, PartialEq, Eq, Structural)]
pub struct PublicKey(pub [u8; 32]);
impl PublicKey {
    pub fn as_bytes(&self) -> (r: &[u8; PUBLIC_KEY_SIZE]) ensures *r == self.0 { &self.0 }
}
#[derive(Clone, Copy, PartialEq, Eq, Structural)]
pub struct XSignature(pub [u8; 64]);
pub struct XEdDSAError { pub e: u8 }
pub struct SystemTimeError { pub e: u8 }
pub trait IdentityHandle: Copy + Eq + Hash {}

// ---- clock ---------------------------------------------------------------------------------------------------------
pub uninterp spec fn spec_now() -> u64;
pub uninterp spec fn clock_fails() -> bool;
pub struct SystemTime { pub t: u64 }
pub struct Epoch { pub e: u8 }
pub const UNIX_EPOCH: Epoch = Epoch { e: 0 };
pub struct DurationShim { pub secs: u64 }
impl DurationShim {
    pub fn as_secs(&self) -> (r: u64) ensures r == self.secs { self.secs }
}
impl SystemTime {
    #[verifier::external_body]
    pub fn now() -> (r: SystemTime) { unimplemented!() }
    #[verifier::external_body]
    pub fn duration_since(&self, e: Epoch) -> (r: Result<DurationShim, SystemTimeError>)
        ensures clock_fails() ==> r is Err, !clock_fails() ==> r is Ok && r->Ok_0.secs == spec_now()
    { unimplemented!() }
}

// ---- crypto leaf ------------------------------------------------------------------------------------------------------
pub uninterp spec fn xsig_ok(msg: Seq<u8>, key: PublicKey, sig: XSignature) -> bool;
#[verifier::external_body]
pub fn xeddsa_verify(bytes: &[u8; PUBLIC_KEY_SIZE], key: &PublicKey, sig: &XSignature) -> (r: Result<(), XEdDSAError>)
    ensures r is Ok <==> xsig_ok(bytes@, *key, *sig)
{ unimplemented!() }

impl vstd::std_specs::convert::FromSpecImpl<LifetimeError> for KeyBundleError {
    open spec fn obeys_from_spec() -> bool { true }
    open spec fn from_spec(e: LifetimeError) -> Self { KeyBundleError::Lifetime(e) }
}
impl From<LifetimeError> for KeyBundleError { fn from(e: LifetimeError) -> (r: Self) { KeyBundleError::Lifetime(e) } }
impl vstd::std_specs::convert::FromSpecImpl<XEdDSAError> for KeyBundleError {
    open spec fn obeys_from_spec() -> bool { true }
    open spec fn from_spec(e: XEdDSAError) -> Self { KeyBundleError::XEdDSA(e) }
}
impl From<XEdDSAError> for KeyBundleError { fn from(e: XEdDSAError) -> (r: Self) { KeyBundleError::XEdDSA(e) } }
impl vstd::std_specs::convert::FromSpecImpl<KeyBundleError> for KeyRegistryError {
    open spec fn obeys_from_spec() -> bool { true }
    open spec fn from_spec(e: KeyBundleError) -> Self { KeyRegistryError::KeyBundle(e) }
}
impl From<KeyBundleError> for KeyRegistryError { fn from(e: KeyBundleError) -> (r: Self) { KeyRegistryError::KeyBundle(e) } }

impl Clone for OneTimeKeyBundle { #[verifier::external_body] fn clone(&self) -> (r: Self) ensures r == *self { unimplemented!() } }
impl Clone for LongTermKeyBundle { #[verifier::external_body] fn clone(&self) -> (r: Self) ensures r == *self { unimplemented!() } }

// ---- HashMap pieces without vstd specs (assumed) ----------------------------------------------------------------------
pub mod km_ax {
    use super::*;
    pub uninterp spec fn key_matches<K, Q: ?Sized>(kk: K, k: &Q) -> bool;
    // `impl Borrow<K> for K` is the identity: the stored key matched by `&k` is the key equal to k
    pub broadcast axiom fn key_matches_same<K>(kk: K, k: &K) ensures #[trigger] key_matches::<K, K>(kk, k) == (kk == *k);
}
pub use km_ax::*;
broadcast use key_matches_same;
pub assume_specification<'a, K, V, S, A, Q> [std::collections::HashMap::<K, V, S, A>::get_mut::<Q>] (m: &'a mut HashMap<K, V, S, A>, k: &Q) -> (r: Option<&'a mut V>)
    where A: Allocator, K: Eq + Hash + Borrow<Q>, Q: std::marker::MetaSized + Hash + Eq + ?Sized, S: BuildHasher,
    ensures
        obeys_key_model::<K>() && builds_valid_hashers::<S>() ==> match r {
            Some(v) => contains_borrowed_key(old(m)@, k) && maps_borrowed_key_to_value(old(m)@, k, *v)
                 && (forall|kk: K| #[trigger] old(m)@.contains_key(kk) && key_matches(kk, k) ==> final(m)@ == old(m)@.insert(kk, *final(v))),
            None => !contains_borrowed_key(old(m)@, k) && final(m)@ == old(m)@,
        }
;

// ---- specification -----------------------------------------------------------------------------------------------------
pub open spec fn lifetime_valid_now(l: Lifetime) -> bool { !clock_fails() && l.not_before < spec_now() && spec_now() < l.not_after }
pub open spec fn onetime_ok_now(b: OneTimeKeyBundle) -> bool {
    lifetime_valid_now(b.signed_prekey.1) && xsig_ok(b.signed_prekey.0.0@, b.identity_key, b.prekey_signature)
}
pub open spec fn longterm_ok_now(b: LongTermKeyBundle) -> bool {
    lifetime_valid_now(b.signed_prekey.1) && xsig_ok(b.signed_prekey.0.0@, b.identity_key, b.prekey_signature)
}

// ---- long-term retrieval -------------------------------------------------------------------------------------------------
// the part of trait KeyBundle that latest_key_bundle uses; implemented for LongTermKeyBundle by forwarding to its extracted method
pub trait KeyBundle: Clone {
    spec fn spec_lifetime(&self) -> Lifetime;
    fn lifetime(&self) -> (r: &Lifetime) ensures *r == self.spec_lifetime();
}
impl KeyBundle for LongTermKeyBundle {
    open spec fn spec_lifetime(&self) -> Lifetime { self.signed_prekey.1 }
    fn lifetime(&self) -> (r: &Lifetime) { LongTermKeyBundle::lifetime(self) }
}
// `Ord for Lifetime` compares `not_after` (the real impls are extracted and checked against these specs)
pub open spec fn u64_cmp(a: u64, b: u64) -> core::cmp::Ordering {
    if a < b { core::cmp::Ordering::Less } else if a == b { core::cmp::Ordering::Equal } else { core::cmp::Ordering::Greater }
}
impl vstd::std_specs::cmp::PartialEqSpecImpl for Lifetime {
    open spec fn obeys_eq_spec() -> bool { true }
    open spec fn eq_spec(&self, other: &Lifetime) -> bool { *self == *other }
}
impl vstd::std_specs::cmp::PartialOrdSpecImpl for Lifetime {
    open spec fn obeys_partial_cmp_spec() -> bool { true }
    open spec fn partial_cmp_spec(&self, other: &Lifetime) -> Option<core::cmp::Ordering> { Some(u64_cmp(self.not_after, other.not_after)) }
}
impl vstd::std_specs::cmp::OrdSpecImpl for Lifetime {
    open spec fn obeys_cmp_spec() -> bool { true }
    open spec fn cmp_spec(&self, other: &Lifetime) -> core::cmp::Ordering { u64_cmp(self.not_after, other.not_after) }
}
// every stored bundle carries a valid signature of its identity key (checked when it was added; signatures do not expire)
pub open spec fn stored_signatures_valid<ID: IdentityHandle>(y: KeyRegistryState<ID>) -> bool {
    forall|id: ID, i: int| y.longterm_bundles@.contains_key(id) && 0 <= i < y.longterm_bundles@[id]@.len()
        ==> xsig_ok((#[trigger] y.longterm_bundles@[id]@[i]).signed_prekey.0.0@, y.longterm_bundles@[id]@[i].identity_key, y.longterm_bundles@[id]@[i].prekey_signature)
}
