pub struct PhantomData<X> { pub g: Ghost<Option<X>> }
pub struct Infallible { pub never: u8 }
pub const PUBLIC_KEY_SIZE: usize = 32;
#[derive(Clone, Copy, PartialEq, Eq, Structural)]
pub struct PublicKey(pub [u8; 32]);
impl PublicKey {
    pub fn as_bytes(&self) -> (r: &[u8; PUBLIC_KEY_SIZE]) ensures *r == self.0 { &self.0 }
}
#[derive(Clone, Copy, PartialEq, Eq, Structural)]
pub struct XSignature(pub [u8; 64]);
pub struct XEdDSAError { pub e: u8 }
pub struct SystemTimeError { pub e: u8 }
pub trait IdentityHandle: Copy + Eq + Hash {}

// ---- clock ---------------------------------------------------------------------------------------------------------
pub uninterp spec fn spec_now() -> u64;
pub uninterp spec fn clock_fails() -> bool;
pub struct SystemTime { pub t: u64 }
pub struct Epoch { pub e: u8 }
pub const UNIX_EPOCH: Epoch = Epoch { e: 0 };
pub struct DurationShim { pub secs: u64 }
impl DurationShim {
    pub fn as_secs(&self) -> (r: u64) ensures r == self.secs { self.secs }
}
impl SystemTime {
    #[verifier::external_body]
    pub fn now() -> (r: SystemTime) { unimplemented!() }
    #[verifier::external_body]
    pub fn duration_since(&self, e: Epoch) -> (r: Result<DurationShim, SystemTimeError>)
        ensures clock_fails() ==> r is Err, !clock_fails() ==> r is Ok && r->Ok_0.secs == spec_now()
    { unimplemented!() }
}

// ---- crypto leaf ------------------------------------------------------------------------------------------------------
pub uninterp spec fn xsig_ok(msg: Seq<u8>, key: PublicKey, sig: XSignature) -> bool;
#[verifier::external_body]
pub fn xeddsa_verify(bytes: &[u8; PUBLIC_KEY_SIZE], key: &PublicKey, sig: &XSignature) -> (r: Result<(), XEdDSAError>)
    ensures r is Ok <==> xsig_ok(bytes@, *key, *sig)
{ unimplemented!() }

impl vstd::std_specs::convert::FromSpecImpl<LifetimeError> for KeyBundleError {
    open spec fn obeys_from_spec() -> bool { true }
    open spec fn from_spec(e: LifetimeError) -> Self { KeyBundleError::Lifetime(e) }
}
impl From<LifetimeError> for KeyBundleError { fn from(e: LifetimeError) -> (r: Self) { KeyBundleError::Lifetime(e) } }
impl vstd::std_specs::convert::FromSpecImpl<XEdDSAError> for KeyBundleError {
    open spec fn obeys_from_spec() -> bool { true }
    open spec fn from_spec(e: XEdDSAError) -> Self { KeyBundleError::XEdDSA(e) }
}
impl From<XEdDSAError> for KeyBundleError { fn from(e: XEdDSAError) -> (r: Self) { KeyBundleError::XEdDSA(e) } }
impl vstd::std_specs::convert::FromSpecImpl<KeyBundleError> for KeyRegistryError {
    open spec fn obeys_from_spec() -> bool { true }
    open spec fn from_spec(e: KeyBundleError) -> Self { KeyRegistryError::KeyBundle(e) }
}
impl From<KeyBundleError> for KeyRegistryError { fn from(e: KeyBundleError) -> (r: Self) { KeyRegistryError::KeyBundle(e) } }

impl Clone for OneTimeKeyBundle { #[verifier::external_body] fn clone(&self) -> (r: Self) ensures r == *self { unimplemented!() } }
impl Clone for LongTermKeyBundle { #[verifier::external_body] fn clone(&self) -> (r: Self) ensures r == *self { unimplemented!() } }

// ---- HashMap pieces without vstd specs (assumed) ----------------------------------------------------------------------
pub uninterp spec fn key_matches<K, Q: ?Sized>(kk: K, k: &Q) -> bool;
pub assume_specification<'a, K, V, S, A, Q> [std::collections::HashMap::<K, V, S, A>::get_mut::<Q>] (m: &'a mut HashMap<K, V, S, A>, k: &Q) -> (r: Option<&'a mut V>)
    where A: Allocator, K: Eq + Hash + Borrow<Q>, Q: std::marker::MetaSized + Hash + Eq + ?Sized, S: BuildHasher,
;
pub assume_specification<'a, K, V, A: Allocator, F: FnOnce(&mut V)> [Entry::<'a, K, V, A>::and_modify] (e: Entry<'a, K, V, A>, f: F) -> (r: Entry<'a, K, V, A>);

// ---- specification -----------------------------------------------------------------------------------------------------
pub open spec fn lifetime_valid_now(l: Lifetime) -> bool { !clock_fails() && l.not_before < spec_now() && spec_now() < l.not_after }
pub open spec fn onetime_ok_now(b: OneTimeKeyBundle) -> bool {
    lifetime_valid_now(b.signed_prekey.1) && xsig_ok(b.signed_prekey.0.0@, b.identity_key, b.prekey_signature)
}
pub open spec fn longterm_ok_now(b: LongTermKeyBundle) -> bool {
    lifetime_valid_now(b.signed_prekey.1) && xsig_ok(b.signed_prekey.0.0@, b.identity_key, b.prekey_signature)
}
