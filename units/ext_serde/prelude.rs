// ---- plain data ---------------------------------------------------------------------------------------------------------
#[derive(Clone, Copy, PartialEq, Eq, PartialOrd, Ord, Structural)]
pub struct Hash(pub [u8; 32]);
#[derive(Clone, Copy, PartialEq, Eq, Structural)]
pub struct LogId(pub Hash);
#[derive(Clone, Copy, PartialEq, Eq, Structural)]
pub struct Timestamp(pub u64);
#[derive(Clone, Copy, PartialEq, Eq, Structural)]
pub struct PruneFlag(pub bool);

impl Tokenize for LogId {
    open spec fn deterministic() -> bool { true }
    open spec fn tok(&self) -> Tok { Tok::Bytes(self.0.0@) }
    open spec fn admissible(&self, t: Tok) -> bool { t == self.tok() }
}
impl Tokenize for Timestamp {
    open spec fn deterministic() -> bool { true }
    open spec fn tok(&self) -> Tok { Tok::U(self.0 as nat) }
    open spec fn admissible(&self, t: Tok) -> bool { t == self.tok() }
}
impl Tokenize for PruneFlag {
    open spec fn deterministic() -> bool { true }
    open spec fn tok(&self) -> Tok { Tok::Bool(self.0) }
    open spec fn admissible(&self, t: Tok) -> bool { t == self.tok() }
}
// `Ord for Hash` (byte order of the digest): an abstract strict total order
pub mod hash_ord {
    use super::*;
    pub uninterp spec fn hash_lt(a: Hash, b: Hash) -> bool;
    pub open spec fn sorted_strict(s: Seq<Hash>) -> bool { forall|i: int, j: int| 0 <= i < j < s.len() ==> hash_lt(s[i], s[j]) }
    pub uninterp spec fn sorted_hashes(s: Set<Hash>) -> Seq<Hash>;
    pub open spec fn deref_seq(v: Seq<&Hash>) -> Seq<Hash> { Seq::new(v.len(), |i: int| *v[i]) }
    pub open spec fn hash_bytes(v: Seq<Hash>) -> Seq<Seq<u8>> { Seq::new(v.len(), |i: int| v[i].0@) }
    // a finite set has exactly one strictly sorted enumeration
    pub broadcast axiom fn sorted_enumeration_unique(q: Seq<Hash>)
        ensures #[trigger] sorted_strict(q) ==> sorted_hashes(q.to_set()) == q;
}
pub use hash_ord::*;
broadcast use sorted_enumeration_unique;
// `<[&Hash]>::sort()` (std: sorts the slice; stable; a permutation of the input) — for an input WITHOUT duplicates the
// result is the strictly sorted enumeration of the same elements
pub mod sort_ax {
    use super::*;
    pub uninterp spec fn sort_rel<T>(before: Seq<T>, after: Seq<T>) -> bool;
    pub broadcast axiom fn sort_of_hash_refs(before: Seq<&Hash>, after: Seq<&Hash>)
        ensures #[trigger] sort_rel(before, after) && deref_seq(before).no_duplicates()
            ==> sorted_strict(deref_seq(after)) && deref_seq(after).to_set() == deref_seq(before).to_set();
}
pub use sort_ax::*;
broadcast use sort_of_hash_refs;
pub assume_specification<T: Ord> [<[T]>::sort] (v: &mut [T])
    ensures sort_rel(old(v)@, final(v)@);
// R16b helper: `set.iter().collect::<Vec<&Hash>>()` — the references to the elements in iteration order: some enumeration
// of the set, every element exactly once
#[verifier::external_body]
pub fn verif_iter_collect<'a>(s: &'a HashSet<Hash>) -> (r: Vec<&'a Hash>)
    ensures deref_seq(r@).no_duplicates(), deref_seq(r@).to_set() == s@
{ unimplemented!() }
// serde's `impl Serialize for HashSet<T>`: the elements in iteration order — some enumeration of the set
impl Tokenize for HashSet<Hash> {
    open spec fn deterministic() -> bool { false }
    open spec fn tok(&self) -> Tok { Tok::HashSeq(hash_bytes(sorted_hashes(self@))) }
    open spec fn admissible(&self, t: Tok) -> bool { exists|ord: Seq<Hash>| #[trigger] hash_bytes(ord) == t->HashSeq_0 && t is HashSeq && ord.to_set() == self@ && ord.no_duplicates() }
}
// a Vec of (references to) hashes is emitted in its own order
impl Tokenize for Vec<&Hash> {
    open spec fn deterministic() -> bool { true }
    open spec fn tok(&self) -> Tok { Tok::HashSeq(hash_bytes(deref_seq(self@))) }
    open spec fn admissible(&self, t: Tok) -> bool { t == self.tok() }
}

// ---- specification: the token stream of an Extensions value (a FUNCTION of the value) -----------------------------------------
pub open spec fn ext_tokens(e: Extensions) -> Seq<Tok> {
    match e.variant {
        ExtensionsVariantV1::Basic(b) => seq![Tok::U(e.version as nat), Tok::U(0x00_00), b.log_id.tok(), b.timestamp.tok(), b.prune_flag.tok()],
        ExtensionsVariantV1::Causal(c) => seq![Tok::U(e.version as nat), Tok::U(0x00_01), c.log_id.tok(), c.timestamp.tok(), Tok::HashSeq(hash_bytes(sorted_hashes(c.previous@)))],
    }
}

// ---- decoding: t is an encoding of e (the `previous` set may come in any order) ---------------------------------------------
pub open spec fn ext_admissible(e: Extensions, t: Seq<Tok>) -> bool {
    &&& t.len() == 5 && t[0] == Tok::U(e.version as nat)
    &&& match e.variant {
        ExtensionsVariantV1::Basic(b) => t[1] == Tok::U(0x00_00) && t[2] == b.log_id.tok() && t[3] == b.timestamp.tok() && t[4] == b.prune_flag.tok(),
        ExtensionsVariantV1::Causal(c) => t[1] == Tok::U(0x00_01) && t[2] == c.log_id.tok() && t[3] == c.timestamp.tok() && c.previous.admissible(t[4]),
    }
}
// equality of extension values (HashSet compared by its set of elements)
pub open spec fn ext_eq(a: Extensions, b: Extensions) -> bool {
    a.version == b.version && match (a.variant, b.variant) {
        (ExtensionsVariantV1::Basic(x), ExtensionsVariantV1::Basic(y)) => x == y,
        (ExtensionsVariantV1::Causal(x), ExtensionsVariantV1::Causal(y)) => x.log_id == y.log_id && x.timestamp == y.timestamp && x.previous@ == y.previous@,
        _ => false,
    }
}
pub proof fn lemma_ext_scalar_toks()
    ensures
        forall|a: LogId, b: LogId| #[trigger] a.tok() == #[trigger] b.tok() ==> a == b,
        forall|a: u16, b: u16| #[trigger] a.tok() == #[trigger] b.tok() ==> a == b,
        forall|a: Timestamp, b: Timestamp| #[trigger] a.tok() == #[trigger] b.tok() ==> a == b,
        forall|a: PruneFlag, b: PruneFlag| #[trigger] a.tok() == #[trigger] b.tok() ==> a == b,
{
    assert forall|a: LogId, b: LogId| #[trigger] a.tok() == #[trigger] b.tok() implies a == b by { assert(a.0.0@ == b.0.0@); assert(a.0.0 =~= b.0.0); }
}
#[verifier::external_body]
pub fn verif_opaque_string() -> String { unimplemented!() }
