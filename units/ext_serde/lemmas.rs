// two sets admitted by the same token are equal
pub proof fn lemma_hashset_admissible_same(a: HashSet<Hash>, b: HashSet<Hash>, t: Tok)
    requires a.admissible(t), b.admissible(t),
    ensures a@ == b@,
{
    let oa = choose|ord: Seq<Hash>| #[trigger] hash_bytes(ord) == t->HashSeq_0 && t is HashSeq && ord.to_set() == a@ && ord.no_duplicates();
    let ob = choose|ord: Seq<Hash>| #[trigger] hash_bytes(ord) == t->HashSeq_0 && t is HashSeq && ord.to_set() == b@ && ord.no_duplicates();
    assert(oa.len() == hash_bytes(oa).len() && ob.len() == hash_bytes(ob).len());
    assert forall|i: int| 0 <= i < oa.len() implies oa[i] == ob[i] by {
        assert(hash_bytes(oa)[i] == hash_bytes(ob)[i]);
        assert(oa[i].0@ == ob[i].0@);
        assert(oa[i].0 =~= ob[i].0);
    }
    assert(oa =~= ob);
}
