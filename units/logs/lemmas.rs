pub proof fn lemma_outer_init<A, L>(local: Map<A, BTreeMap<L, SeqNum>>, remote: Map<A, BTreeMap<L, SeqNum>>, needs: Map<A, BTreeMap<L, Rng>>, h: Seq<(&A, &BTreeMap<L, SeqNum>)>)
    requires needs == Map::<A, BTreeMap<L, Rng>>::empty(), h.len() == 0,
    ensures outer_inv(local, remote, needs, h),
{
    reveal(outer_inv);
}

// author unknown to the remote: all its logs are needed in full
pub proof fn lemma_outer_unknown<A, L>(local: Map<A, BTreeMap<L, SeqNum>>, remote: Map<A, BTreeMap<L, SeqNum>>,
    old: Map<A, BTreeMap<L, Rng>>, new: Map<A, BTreeMap<L, Rng>>, h: Seq<(&A, &BTreeMap<L, SeqNum>)>, h2: Seq<(&A, &BTreeMap<L, SeqNum>)>, key: A)
    requires
        outer_inv(local, remote, old, h),
        next_key(h, h2, key),
        local.contains_key(key),
        !remote.contains_key(key),
        new.contains_key(key),
        forall|a: A| a != key ==> (#[trigger] new.contains_key(a) == old.contains_key(a)),
        forall|a: A| a != key && #[trigger] old.contains_key(a) ==> new[a] == old[a],
        forall|l: L| #[trigger] new[key]@.contains_key(l) <==> local[key]@.contains_key(l),
        forall|l: L| local[key]@.contains_key(l) ==> #[trigger] new[key]@[l] == (None::<SeqNum>, Some(local[key]@[l])),
    ensures
        outer_inv(local, remote, new, h2),
{
    reveal(outer_inv);
    assert forall|a: A, l: L| #[trigger] rget(new, a, l) == (if visited(h2, a) { expected(local, remote, a, l) } else { None }) by {
        if a == key {
        } else {
            assert(rget(new, a, l) == rget(old, a, l));
        }
    }
    assert forall|a: A| #[trigger] new.contains_key(a) implies visited(h2, a) by {
        if a != key { assert(old.contains_key(a)); }
    }
}

// author known with identical logs: nothing needed
pub proof fn lemma_outer_equal<A, L>(local: Map<A, BTreeMap<L, SeqNum>>, remote: Map<A, BTreeMap<L, SeqNum>>,
    needs: Map<A, BTreeMap<L, Rng>>, h: Seq<(&A, &BTreeMap<L, SeqNum>)>, h2: Seq<(&A, &BTreeMap<L, SeqNum>)>, key: A)
    requires
        outer_inv(local, remote, needs, h),
        next_key(h, h2, key),
        local.contains_key(key), remote.contains_key(key), local[key]@ == remote[key]@,
    ensures
        outer_inv(local, remote, needs, h2),
{
    reveal(outer_inv);
    assert forall|a: A, l: L| #[trigger] rget(needs, a, l) == (if visited(h2, a) { expected(local, remote, a, l) } else { None }) by {
        if a == key { assert(!needs.contains_key(key)); }
    }
}

pub proof fn lemma_inner_init<A, L>(local: Map<A, BTreeMap<L, SeqNum>>, remote: Map<A, BTreeMap<L, SeqNum>>,
    needs: Map<A, BTreeMap<L, Rng>>, h: Seq<(&A, &BTreeMap<L, SeqNum>)>, key: A, g: Seq<(&L, &SeqNum)>)
    requires outer_inv(local, remote, needs, h), !visited(h, key), g.len() == 0,
    ensures inner_inv(local, remote, needs, h, key, g),
{
    reveal(outer_inv);
    reveal(inner_inv);
    assert forall|a: A, l: L| #[trigger] rget(needs, a, l) == (if a == key { if visited(g, l) { expected(local, remote, a, l) } else { None } } else if visited(h, a) { expected(local, remote, a, l) } else { None }) by {
        if a == key { assert(!needs.contains_key(key)); }
    }
}

// a log the remote needs: the recorded range is exactly the expected one
pub proof fn lemma_inner_insert<A, L>(local: Map<A, BTreeMap<L, SeqNum>>, remote: Map<A, BTreeMap<L, SeqNum>>,
    old: Map<A, BTreeMap<L, Rng>>, new: Map<A, BTreeMap<L, Rng>>, h: Seq<(&A, &BTreeMap<L, SeqNum>)>, key: A,
    g: Seq<(&L, &SeqNum)>, g2: Seq<(&L, &SeqNum)>, l: L, v: Rng)
    requires
        inner_inv(local, remote, old, h, key, g),
        next_key(g, g2, l),
        upd(old, new, key, l, v),
        expected(local, remote, key, l) == Some(v),
    ensures
        inner_inv(local, remote, new, h, key, g2),
{
    reveal(inner_inv);
    assert forall|a: A, l2: L| #[trigger] rget(new, a, l2) == (if a == key { if visited(g2, l2) { expected(local, remote, a, l2) } else { None } } else if visited(h, a) { expected(local, remote, a, l2) } else { None }) by {
        if a == key {
            if l2 == l {
            } else {
                assert(rget(new, a, l2) == rget(old, a, l2));
            }
        } else {
            assert(rget(new, a, l2) == rget(old, a, l2));
        }
    }
    assert forall|a: A| #[trigger] new.contains_key(a) implies visited(h, a) || a == key by {
        if a != key { assert(old.contains_key(a)); }
    }
}

// a log the remote does not need
pub proof fn lemma_inner_skip<A, L>(local: Map<A, BTreeMap<L, SeqNum>>, remote: Map<A, BTreeMap<L, SeqNum>>,
    needs: Map<A, BTreeMap<L, Rng>>, h: Seq<(&A, &BTreeMap<L, SeqNum>)>, key: A,
    g: Seq<(&L, &SeqNum)>, g2: Seq<(&L, &SeqNum)>, l: L)
    requires
        inner_inv(local, remote, needs, h, key, g),
        next_key(g, g2, l),
        expected(local, remote, key, l) is None,
    ensures
        inner_inv(local, remote, needs, h, key, g2),
{
    reveal(inner_inv);
    assert forall|a: A, l2: L| #[trigger] rget(needs, a, l2) == (if a == key { if visited(g2, l2) { expected(local, remote, a, l2) } else { None } } else if visited(h, a) { expected(local, remote, a, l2) } else { None }) by {
    }
}

pub proof fn lemma_inner_done<A, L>(local: Map<A, BTreeMap<L, SeqNum>>, remote: Map<A, BTreeMap<L, SeqNum>>,
    needs: Map<A, BTreeMap<L, Rng>>, h: Seq<(&A, &BTreeMap<L, SeqNum>)>, h2: Seq<(&A, &BTreeMap<L, SeqNum>)>, key: A, g: Seq<(&L, &SeqNum)>)
    requires
        inner_inv(local, remote, needs, h, key, g),
        next_key(h, h2, key),
        local.contains_key(key),
        covers(g, local[key]@),
    ensures
        outer_inv(local, remote, needs, h2),
{
    reveal(inner_inv);
    reveal(outer_inv);
    assert forall|a: A, l: L| #[trigger] rget(needs, a, l) == (if visited(h2, a) { expected(local, remote, a, l) } else { None }) by {
    }
}

pub proof fn lemma_outer_done<A, L>(local: Map<A, BTreeMap<L, SeqNum>>, remote: Map<A, BTreeMap<L, SeqNum>>,
    needs: Map<A, BTreeMap<L, Rng>>, h: Seq<(&A, &BTreeMap<L, SeqNum>)>)
    requires
        outer_inv(local, remote, needs, h),
        covers(h, local),
    ensures
        forall|a: A, l: L| rget(needs, a, l) == expected(local, remote, a, l),
        forall|a: A| needs.contains_key(a) ==> local.contains_key(a),
{
    reveal(outer_inv);
    assert forall|a: A, l: L| rget(needs, a, l) == expected(local, remote, a, l) by {
        assert(rget(needs, a, l) == (if visited(h, a) { expected(local, remote, a, l) } else { None }));
    }
}

//@ obligation name=merge_is_pointwise_max props=C06
// "Merging the diff into the remote heights yields the pointwise maximum of both maps."
pub open spec fn omax(a: Option<SeqNum>, b: Option<SeqNum>) -> Option<SeqNum> {
    match (a, b) { (None, x) => x, (x, None) => x, (Some(x), Some(y)) => Some(if x >= y { x } else { y }) }
}
pub open spec fn apply_diff(remote_h: Option<SeqNum>, d: Option<(Option<SeqNum>, Option<SeqNum>)>) -> Option<SeqNum> {
    match d { Some((_from, until)) => until, None => remote_h }
}
pub proof fn lemma_merge_is_pointwise_max<A, L>(local: Map<A, BTreeMap<L, SeqNum>>, remote: Map<A, BTreeMap<L, SeqNum>>, a: A, l: L)
    ensures apply_diff(hget(remote, a, l), expected(local, remote, a, l)) == omax(hget(local, a, l), hget(remote, a, l)),
{
}

//@ obligation name=advance_order_independent props=C07
// "A cursor's state equals the pointwise maximum of all heights it was advanced to, independent of the order."
pub open spec fn adv(c: Option<SeqNum>, h: SeqNum) -> Option<SeqNum> {
    Some(match c { Some(x) => if x >= h { x } else { h }, None => h })
}
pub proof fn lemma_advance_commutes(c: Option<SeqNum>, h1: SeqNum, h2: SeqNum)
    ensures adv(adv(c, h1), h2) == adv(adv(c, h2), h1),
            adv(c, h1) == omax(c, Some(h1)),
{
}
