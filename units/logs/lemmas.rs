// history h is a prefix of all; the next element all[h.len()] is new: visited(h.push(x), k) <==> visited(h, k) || k == x.0,
// and x.0 itself has not been visited when keys are distinct.
pub proof fn lemma_visited_next<K, V>(h: Seq<(&K, &V)>, all: Seq<(&K, &V)>)
    requires
        h.len() < all.len(),
        forall|i: int| 0 <= i < h.len() ==> h[i] == all[i],
        forall|i: int, j: int| 0 <= i < j < all.len() ==> *(#[trigger] all[i]).0 != *(#[trigger] all[j]).0,
    ensures
        !visited(h, *all[h.len() as int].0),
        forall|k: K| visited(h.push(all[h.len() as int]), k) <==> (visited(h, k) || k == *all[h.len() as int].0),
{
    let x = all[h.len() as int];
    let h2 = h.push(x);
    if visited(h, *x.0) {
        let i = choose|i: int| 0 <= i < h.len() && *(#[trigger] h[i]).0 == *x.0;
        assert(all[i] == h[i]);
    }
    assert forall|k: K| visited(h2, k) <==> (visited(h, k) || k == *x.0) by {
        if visited(h2, k) {
            let i = choose|i: int| 0 <= i < h2.len() && *(#[trigger] h2[i]).0 == k;
            if i < h.len() { assert(h[i] == h2[i]); }
        }
        if visited(h, k) {
            let i = choose|i: int| 0 <= i < h.len() && *(#[trigger] h[i]).0 == k;
            assert(h2[i] == h[i]);
        }
        if k == *x.0 { assert(h2[h.len() as int] == x); }
    }
}

// the result of collecting `(log, (None, Some(height)))` over all logs of an author
pub proof fn lemma_full_ranges<L>(m: Map<L, SeqNum>, rem: Seq<(&L, &SeqNum)>, s: Seq<(L, (Option<SeqNum>, Option<SeqNum>))>, r: Map<L, (Option<SeqNum>, Option<SeqNum>)>)
    requires
        entries_of(rem, m),
        s.len() == rem.len(),
        forall|i: int| 0 <= i < s.len() ==> #[trigger] s[i] == (*rem[i].0, (None::<SeqNum>, Some(*rem[i].1))),
        r.dom() =~= m.dom(),
        forall|i: int| 0 <= i < s.len() ==> r[(#[trigger] s[i]).0] == s[i].1,
    ensures
        forall|l: L| m.contains_key(l) ==> #[trigger] r[l] == (None::<SeqNum>, Some(m[l])),
{
    assert forall|l: L| m.contains_key(l) implies #[trigger] r[l] == (None::<SeqNum>, Some(m[l])) by {
        let i = choose|i: int| 0 <= i < rem.len() && *(#[trigger] rem[i]).0 == l && *rem[i].1 == m[l];
        assert(s[i].0 == l);
    }
}

//@ obligation name=merge_is_pointwise_max props=C06
// "Merging the diff into the remote heights yields the pointwise maximum of both maps."
pub open spec fn omax(a: Option<SeqNum>, b: Option<SeqNum>) -> Option<SeqNum> {
    match (a, b) { (None, x) => x, (x, None) => x, (Some(x), Some(y)) => Some(if x >= y { x } else { y }) }
}
pub open spec fn apply_diff(remote_h: Option<SeqNum>, d: Option<(Option<SeqNum>, Option<SeqNum>)>) -> Option<SeqNum> {
    match d { Some((_from, until)) => until, None => remote_h }
}
pub proof fn lemma_merge_is_pointwise_max<A, L>(local: Map<A, BTreeMap<L, SeqNum>>, remote: Map<A, BTreeMap<L, SeqNum>>, a: A, l: L)
    ensures apply_diff(hget(remote, a, l), expected(local, remote, a, l)) == omax(hget(local, a, l), hget(remote, a, l)),
{
}

//@ obligation name=advance_order_independent props=C07
// "A cursor's state equals the pointwise maximum of all heights it was advanced to, independent of the order."
pub open spec fn adv(c: Option<SeqNum>, h: SeqNum) -> Option<SeqNum> {
    Some(match c { Some(x) => if x >= h { x } else { h }, None => h })
}
pub proof fn lemma_advance_commutes(c: Option<SeqNum>, h1: SeqNum, h2: SeqNum)
    ensures adv(adv(c, h1), h2) == adv(adv(c, h2), h1),
            adv(c, h1) == omax(c, Some(h1)),
{
}
