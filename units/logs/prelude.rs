pub trait Author: Clone + Ord {}
pub trait LogId: Clone + Ord {}

// height of (author, log) in a state vector, if known
pub open spec fn hget<A, L>(m: Map<A, BTreeMap<L, SeqNum>>, a: A, l: L) -> Option<SeqNum> {
    if m.contains_key(a) && m[a]@.contains_key(l) { Some(m[a]@[l]) } else { None }
}
// range of (author, log) in a diff, if any
pub open spec fn rget<A, L>(m: Map<A, BTreeMap<L, (Option<SeqNum>, Option<SeqNum>)>>, a: A, l: L) -> Option<(Option<SeqNum>, Option<SeqNum>)> {
    if m.contains_key(a) && m[a]@.contains_key(l) { Some(m[a]@[l]) } else { None }
}
// the remote is missing the log or is behind
pub open spec fn need<A, L>(local: Map<A, BTreeMap<L, SeqNum>>, remote: Map<A, BTreeMap<L, SeqNum>>, a: A, l: L) -> bool {
    hget(local, a, l) is Some && (hget(remote, a, l) is None || hget(remote, a, l)->0 < hget(local, a, l)->0)
}
// the specification of the diff, straight from the property statement:
// (remote height exclusive, or from the start; up to the local height inclusive) for needed logs, nothing otherwise
pub open spec fn expected<A, L>(local: Map<A, BTreeMap<L, SeqNum>>, remote: Map<A, BTreeMap<L, SeqNum>>, a: A, l: L) -> Option<(Option<SeqNum>, Option<SeqNum>)> {
    if need(local, remote, a, l) { Some((hget(remote, a, l), hget(local, a, l))) } else { None }
}
// keys visited so far by an iteration over a map
pub open spec fn visited<K, V>(h: Seq<(&K, &V)>, k: K) -> bool {
    exists|i: int| 0 <= i < h.len() && *(#[trigger] h[i]).0 == k
}
