pub trait Author: Clone + Ord {}
pub trait LogId: Clone + Ord {}

pub type Rng = (Option<SeqNum>, Option<SeqNum>);

// height of (author, log) in a state vector, if known
pub open spec fn hget<A, L>(m: Map<A, BTreeMap<L, SeqNum>>, a: A, l: L) -> Option<SeqNum> {
    if m.contains_key(a) && m[a]@.contains_key(l) { Some(m[a]@[l]) } else { None }
}
// range of (author, log) in a diff, if any
pub open spec fn rget<A, L>(m: Map<A, BTreeMap<L, Rng>>, a: A, l: L) -> Option<Rng> {
    if m.contains_key(a) && m[a]@.contains_key(l) { Some(m[a]@[l]) } else { None }
}
// the remote is missing the log or is behind
pub open spec fn need<A, L>(local: Map<A, BTreeMap<L, SeqNum>>, remote: Map<A, BTreeMap<L, SeqNum>>, a: A, l: L) -> bool {
    hget(local, a, l) is Some && (hget(remote, a, l) is None || hget(remote, a, l)->0 < hget(local, a, l)->0)
}
// the specification of the diff, straight from the property statement:
// (remote height exclusive, or from the start; up to the local height inclusive) for needed logs, nothing otherwise
pub open spec fn expected<A, L>(local: Map<A, BTreeMap<L, SeqNum>>, remote: Map<A, BTreeMap<L, SeqNum>>, a: A, l: L) -> Option<Rng> {
    if need(local, remote, a, l) { Some((hget(remote, a, l), hget(local, a, l))) } else { None }
}
// ---- loop invariants (opaque in the function body; unfolded only inside the step lemmas) ----------
#[verifier::opaque]
pub open spec fn outer_inv<A, L>(local: Map<A, BTreeMap<L, SeqNum>>, remote: Map<A, BTreeMap<L, SeqNum>>, needs: Map<A, BTreeMap<L, Rng>>, h: Seq<(&A, &BTreeMap<L, SeqNum>)>) -> bool {
    &&& forall|a: A, l: L| #[trigger] rget(needs, a, l) == (if visited(h, a) { expected(local, remote, a, l) } else { None })
    &&& forall|a: A| #[trigger] needs.contains_key(a) ==> visited(h, a)
}
#[verifier::opaque]
pub open spec fn inner_inv<A, L>(local: Map<A, BTreeMap<L, SeqNum>>, remote: Map<A, BTreeMap<L, SeqNum>>, needs: Map<A, BTreeMap<L, Rng>>, h: Seq<(&A, &BTreeMap<L, SeqNum>)>, key: A, g: Seq<(&L, &SeqNum)>) -> bool {
    &&& forall|a: A, l: L| #[trigger] rget(needs, a, l) == (if a == key { if visited(g, l) { expected(local, remote, a, l) } else { None } } else if visited(h, a) { expected(local, remote, a, l) } else { None })
    &&& forall|a: A| #[trigger] needs.contains_key(a) ==> visited(h, a) || a == key
}
// effect of `needs.entry(key).or_default().insert(l, v)`
pub open spec fn upd<A, L>(old: Map<A, BTreeMap<L, Rng>>, new: Map<A, BTreeMap<L, Rng>>, key: A, l: L, v: Rng) -> bool {
    &&& new.contains_key(key)
    &&& new[key]@ == (if old.contains_key(key) { old[key]@ } else { Map::<L, Rng>::empty() }).insert(l, v)
    &&& forall|a: A| a != key ==> (#[trigger] new.contains_key(a) == old.contains_key(a))
    &&& forall|a: A| a != key && #[trigger] old.contains_key(a) ==> new[a] == old[a]
}
