// ---- helper lemmas for the loop of merge -------------------------------------------------------------------------------------
pub proof fn lemma_current_not_visited<ID, C>(snap: Seq<(ID, MemberState<C>)>, h: Seq<(ID, MemberState<C>)>, rem: Seq<(ID, MemberState<C>)>, s1: Map<ID, MemberState<C>>)
    requires entries_of_map(snap, s1), h + rem == snap, rem.len() > 0,
    ensures !in_hist(h, snap[h.len() as int].0), snap[h.len() as int] == rem[0],
{
    assert(snap[h.len() as int] == (h + rem)[h.len() as int]);
    assert forall|i: int| 0 <= i < h.len() implies h[i].0 != snap[h.len() as int].0 by {
        assert(h[i] == (h + rem)[i]);
    }
}

pub proof fn lemma_merge_step<ID, C: PartialOrd>(h: Seq<(ID, MemberState<C>)>, cur: (ID, MemberState<C>), s2: Map<ID, MemberState<C>>, old_next: Map<ID, MemberState<C>>, nx: Map<ID, MemberState<C>>)
    requires
        merged_so_far(h, s2, old_next),
        !in_hist(h, cur.0),
        mget(nx, cur.0) == Some(if s2.contains_key(cur.0) { merge_member(cur.1, s2[cur.0]) } else { cur.1 }),
        forall|k: ID| k != cur.0 ==> mget(nx, k) == mget(old_next, k),
    ensures merged_so_far(h.push(cur), s2, nx),
{
    let h2 = h.push(cur);
    assert forall|i: int| 0 <= i < h.len() implies h[i].0 != cur.0 by {}
    assert forall|k: ID| !in_hist(h2, k) implies !in_hist(h, k) && k != cur.0 by {
        if in_hist(h, k) { let i = choose|i: int| 0 <= i < h.len() && #[trigger] h[i].0 == k; assert(h2[i].0 == k); }
        if k == cur.0 { assert(h2[h.len() as int].0 == k); }
    }
    assert forall|i: int| 0 <= i < h2.len() implies mget(nx, #[trigger] h2[i].0) == Some(if s2.contains_key(h2[i].0) { merge_member(h2[i].1, s2[h2[i].0]) } else { h2[i].1 }) by {
        if i < h.len() { assert(h2[i] == h[i]); }
    }
}

// ---- C32: the laws of the property, over the merge rule that the real `merge` is proved to implement -------------------------
// "the access order is a strict total order on these accesses"
pub open spec fn trichotomy<C: PartialOrd>(a: Access<C>, b: Access<C>) -> bool {
    (access_lt(a, b) && a != b && !access_lt(b, a)) || (!access_lt(a, b) && a == b && !access_lt(b, a)) || (!access_lt(a, b) && a != b && access_lt(b, a))
}
pub open spec fn no_conditions<C>(m: MemberState<C>) -> bool { m.access.conditions is None }

pub proof fn lemma_access_order_without_conditions<C: PartialOrd>(a: Access<C>, b: Access<C>, c: Access<C>)
    requires a.conditions is None, b.conditions is None, c.conditions is None,
    ensures trichotomy(a, b), access_lt(a, b) && access_lt(b, c) ==> access_lt(a, c),
            access_lt(a, b) <==> level_rank(a.level) < level_rank(b.level),
{
    assert(a == b <==> level_rank(a.level) == level_rank(b.level)) by {
        assert(a.conditions == b.conditions);
    }
}

pub proof fn lemma_merge_member_commutative<C: PartialOrd>(m1: MemberState<C>, m2: MemberState<C>)
    requires trichotomy(m1.access, m2.access),
    ensures merge_member(m1, m2) == merge_member(m2, m1),
{}

//@ obligation props=C32
pub proof fn lemma_merge_commutative_without_conditions<ID, C: PartialOrd>(s1: Map<ID, MemberState<C>>, s2: Map<ID, MemberState<C>>, r12: Map<ID, MemberState<C>>, r21: Map<ID, MemberState<C>>)
    requires is_merge_of(s1, s2, r12), is_merge_of(s2, s1, r21),
        forall|id: ID| s1.contains_key(id) ==> no_conditions(#[trigger] s1[id]),
        forall|id: ID| s2.contains_key(id) ==> no_conditions(#[trigger] s2[id]),
    ensures r12 =~= r21,
{
    assert forall|id: ID| mget(r12, id) == mget(r21, id) by {
        assert(mget(r12, id) == merge_at(s1, s2, id));
        assert(mget(r21, id) == merge_at(s2, s1, id));
        if s1.contains_key(id) && s2.contains_key(id) {
            lemma_access_order_without_conditions(s1[id].access, s2[id].access, s2[id].access);
            lemma_merge_member_commutative(s1[id], s2[id]);
        }
    }
    assert forall|id: ID| r12.dom().contains(id) == r21.dom().contains(id) by {
        assert(mget(r12, id) == mget(r21, id));}
    assert forall|id: ID| r12.dom().contains(id) implies r12[id] == r21[id] by {
        assert(mget(r12, id) == mget(r21, id));}
}

//@ obligation props=C32
pub proof fn lemma_merge_idempotent<ID, C: PartialOrd>(s: Map<ID, MemberState<C>>, r: Map<ID, MemberState<C>>)
    requires is_merge_of(s, s, r),
        forall|id: ID| s.contains_key(id) ==> !access_lt(#[trigger] s[id].access, s[id].access),
    ensures r =~= s,
{
    assert forall|id: ID| r.dom().contains(id) == s.dom().contains(id) by {
        assert(mget(r, id) == merge_at(s, s, id));}
    assert forall|id: ID| r.dom().contains(id) implies r[id] == s[id] by {
        assert(mget(r, id) == merge_at(s, s, id));}
}

// irreflexivity of the access order needs only that the conditions' own order is reflexive-equal
//@ obligation props=C32
pub proof fn lemma_access_lt_irreflexive<C: PartialOrd>(a: Access<C>)
    requires a.conditions is Some ==> (a.conditions->0).partial_cmp_spec(&(a.conditions->0)) == Some(Ordering::Equal),
    ensures !access_lt(a, a),
{}

pub proof fn lemma_merge_member_associative<C: PartialOrd>(a: MemberState<C>, b: MemberState<C>, c: MemberState<C>)
    requires trichotomy(a.access, b.access), trichotomy(b.access, c.access), trichotomy(a.access, c.access),
        access_lt(a.access, b.access) && access_lt(b.access, c.access) ==> access_lt(a.access, c.access),
        access_lt(c.access, b.access) && access_lt(b.access, a.access) ==> access_lt(c.access, a.access),
        access_lt(a.access, c.access) && access_lt(c.access, b.access) ==> access_lt(a.access, b.access),
        access_lt(b.access, a.access) && access_lt(a.access, c.access) ==> access_lt(b.access, c.access),
        access_lt(b.access, c.access) && access_lt(c.access, a.access) ==> access_lt(b.access, a.access),
        access_lt(c.access, a.access) && access_lt(a.access, b.access) ==> access_lt(c.access, b.access),
    ensures merge_member(merge_member(a, b), c) == merge_member(a, merge_member(b, c)),
{}

//@ obligation props=C32
pub proof fn lemma_merge_associative_without_conditions<ID, C: PartialOrd>(s1: Map<ID, MemberState<C>>, s2: Map<ID, MemberState<C>>, s3: Map<ID, MemberState<C>>,
        r12: Map<ID, MemberState<C>>, r23: Map<ID, MemberState<C>>, ra: Map<ID, MemberState<C>>, rb: Map<ID, MemberState<C>>)
    requires is_merge_of(s1, s2, r12), is_merge_of(r12, s3, ra), is_merge_of(s2, s3, r23), is_merge_of(s1, r23, rb),
        forall|id: ID| s1.contains_key(id) ==> no_conditions(#[trigger] s1[id]),
        forall|id: ID| s2.contains_key(id) ==> no_conditions(#[trigger] s2[id]),
        forall|id: ID| s3.contains_key(id) ==> no_conditions(#[trigger] s3[id]),
    ensures ra =~= rb,
{
    assert forall|id: ID| mget(ra, id) == mget(rb, id) by {
        assert(mget(r12, id) == merge_at(s1, s2, id));
        assert(mget(r23, id) == merge_at(s2, s3, id));
        assert(mget(ra, id) == merge_at(r12, s3, id));
        assert(mget(rb, id) == merge_at(s1, r23, id));
        if s1.contains_key(id) && s2.contains_key(id) && s3.contains_key(id) {
            let a = s1[id]; let b = s2[id]; let c = s3[id];
            lemma_access_order_without_conditions(a.access, b.access, c.access);
            lemma_access_order_without_conditions(c.access, b.access, a.access);
            lemma_access_order_without_conditions(a.access, c.access, b.access);
            lemma_access_order_without_conditions(b.access, a.access, c.access);
            lemma_access_order_without_conditions(b.access, c.access, a.access);
            lemma_access_order_without_conditions(c.access, a.access, b.access);
            lemma_merge_member_associative(a, b, c);
        }
    }
    assert forall|id: ID| ra.dom().contains(id) == rb.dom().contains(id) by {
        assert(mget(ra, id) == mget(rb, id));}
    assert forall|id: ID| ra.dom().contains(id) implies ra[id] == rb[id] by {
        assert(mget(ra, id) == mget(rb, id));}
}

// ---- "with totally ordered access conditions" (second half of the quantifier of C32) ------------------------------------------
pub open spec fn conditions_totally_ordered<C: PartialOrd>() -> bool {
    &&& forall|x: C, y: C| #[trigger] x.partial_cmp_spec(&y) is Some
    &&& forall|x: C, y: C| (#[trigger] x.partial_cmp_spec(&y) == Some(Ordering::Equal)) <==> x == y
    &&& forall|x: C, y: C| (#[trigger] x.partial_cmp_spec(&y) == Some(Ordering::Less)) <==> y.partial_cmp_spec(&x) == Some(Ordering::Greater)
    &&& forall|x: C, y: C, z: C| #[trigger] x.partial_cmp_spec(&y) == Some(Ordering::Less) && #[trigger] y.partial_cmp_spec(&z) == Some(Ordering::Less) ==> x.partial_cmp_spec(&z) == Some(Ordering::Less)
}

//@ obligation props=C32
pub proof fn lemma_merge_commutative_with_totally_ordered_conditions<C: PartialOrd>(m1: MemberState<C>, m2: MemberState<C>)
    requires conditions_totally_ordered::<C>(),
    ensures merge_member(m1, m2) == merge_member(m2, m1),
{}

//@ obligation props=C32
pub proof fn lemma_merge_associative_with_totally_ordered_conditions<C: PartialOrd>(a: MemberState<C>, b: MemberState<C>, c: MemberState<C>)
    requires conditions_totally_ordered::<C>(),
    ensures merge_member(merge_member(a, b), c) == merge_member(a, merge_member(b, c)),
{}
