// ---- helper lemmas for the loop of merge -------------------------------------------------------------------------------------
pub proof fn lemma_current_not_visited<ID, C>(snap: Seq<(ID, MemberState<C>)>, h: Seq<(ID, MemberState<C>)>, rem: Seq<(ID, MemberState<C>)>, s1: Map<ID, MemberState<C>>)
    requires entries_of_map(snap, s1), h + rem == snap, rem.len() > 0,
    ensures !in_hist(h, snap[h.len() as int].0), snap[h.len() as int] == rem[0],
{
    assert(snap[h.len() as int] == (h + rem)[h.len() as int]);
    assert forall|i: int| 0 <= i < h.len() implies h[i].0 != snap[h.len() as int].0 by {
        assert(h[i] == (h + rem)[i]);
    }
}

pub proof fn lemma_merge_step<ID, C: PartialOrd>(h: Seq<(ID, MemberState<C>)>, cur: (ID, MemberState<C>), s2: Map<ID, MemberState<C>>, old_next: Map<ID, MemberState<C>>, nx: Map<ID, MemberState<C>>)
    requires
        merged_so_far(h, s2, old_next),
        !in_hist(h, cur.0),
        mget(nx, cur.0) == Some(if s2.contains_key(cur.0) { merge_member(cur.1, s2[cur.0]) } else { cur.1 }),
        forall|k: ID| k != cur.0 ==> mget(nx, k) == mget(old_next, k),
    ensures merged_so_far(h.push(cur), s2, nx),
{
    let h2 = h.push(cur);
    assert forall|i: int| 0 <= i < h.len() implies h[i].0 != cur.0 by {}
    assert forall|k: ID| !in_hist(h2, k) implies !in_hist(h, k) && k != cur.0 by {
        if in_hist(h, k) { let i = choose|i: int| 0 <= i < h.len() && #[trigger] h[i].0 == k; assert(h2[i].0 == k); }
        if k == cur.0 { assert(h2[h.len() as int].0 == k); }
    }
    assert forall|i: int| 0 <= i < h2.len() implies mget(nx, #[trigger] h2[i].0) == Some(if s2.contains_key(h2[i].0) { merge_member(h2[i].1, s2[h2[i].0]) } else { h2[i].1 }) by {
        if i < h.len() { assert(h2[i] == h[i]); }
    }
}

// ---- C32: the laws of the property, over the merge rule that the real `merge` is proved to implement -------------------------
// "the access order is a strict total order on these accesses"
pub open spec fn trichotomy<C: PartialOrd>(a: Access<C>, b: Access<C>) -> bool {
    (access_lt(a, b) && a != b && !access_lt(b, a)) || (!access_lt(a, b) && a == b && !access_lt(b, a)) || (!access_lt(a, b) && a != b && access_lt(b, a))
}
pub open spec fn no_conditions<C>(m: MemberState<C>) -> bool { m.access.conditions is None }

pub proof fn lemma_access_order_without_conditions<C: PartialOrd>(a: Access<C>, b: Access<C>, c: Access<C>)
    requires a.conditions is None, b.conditions is None, c.conditions is None,
    ensures trichotomy(a, b), access_lt(a, b) && access_lt(b, c) ==> access_lt(a, c),
            access_lt(a, b) <==> level_rank(a.level) < level_rank(b.level),
{
    assert(a == b <==> level_rank(a.level) == level_rank(b.level)) by {
        assert(a.conditions == b.conditions);
    }
}

pub proof fn lemma_merge_member_commutative<C: PartialOrd>(m1: MemberState<C>, m2: MemberState<C>)
    requires trichotomy(m1.access, m2.access),
    ensures merge_member(m1, m2) == merge_member(m2, m1),
{}

//@ obligation props=C32
pub proof fn lemma_merge_commutative_without_conditions<ID, C: PartialOrd>(s1: Map<ID, MemberState<C>>, s2: Map<ID, MemberState<C>>, r12: Map<ID, MemberState<C>>, r21: Map<ID, MemberState<C>>)
    requires is_merge_of(s1, s2, r12), is_merge_of(s2, s1, r21),
        forall|id: ID| s1.contains_key(id) ==> no_conditions(#[trigger] s1[id]),
        forall|id: ID| s2.contains_key(id) ==> no_conditions(#[trigger] s2[id]),
    ensures r12 =~= r21,
{
    assert forall|id: ID| mget(r12, id) == mget(r21, id) by {
        assert(mget(r12, id) == merge_at(s1, s2, id));
        assert(mget(r21, id) == merge_at(s2, s1, id));
        if s1.contains_key(id) && s2.contains_key(id) {
            lemma_access_order_without_conditions(s1[id].access, s2[id].access, s2[id].access);
            lemma_merge_member_commutative(s1[id], s2[id]);
        }
    }
    assert forall|id: ID| r12.dom().contains(id) == r21.dom().contains(id) by {
        assert(mget(r12, id) == mget(r21, id));}
    assert forall|id: ID| r12.dom().contains(id) implies r12[id] == r21[id] by {
        assert(mget(r12, id) == mget(r21, id));}
}

//@ obligation props=C32
pub proof fn lemma_merge_idempotent<ID, C: PartialOrd>(s: Map<ID, MemberState<C>>, r: Map<ID, MemberState<C>>)
    requires is_merge_of(s, s, r),
        forall|id: ID| s.contains_key(id) ==> !access_lt(#[trigger] s[id].access, s[id].access),
    ensures r =~= s,
{
    assert forall|id: ID| r.dom().contains(id) == s.dom().contains(id) by {
        assert(mget(r, id) == merge_at(s, s, id));}
    assert forall|id: ID| r.dom().contains(id) implies r[id] == s[id] by {
        assert(mget(r, id) == merge_at(s, s, id));}
}

// irreflexivity of the access order needs only that the conditions' own order is reflexive-equal
//@ obligation props=C32
pub proof fn lemma_access_lt_irreflexive<C: PartialOrd>(a: Access<C>)
    requires a.conditions is Some ==> (a.conditions->0).partial_cmp_spec(&(a.conditions->0)) == Some(Ordering::Equal),
    ensures !access_lt(a, a),
{}

pub proof fn lemma_merge_member_associative<C: PartialOrd>(a: MemberState<C>, b: MemberState<C>, c: MemberState<C>)
    requires trichotomy(a.access, b.access), trichotomy(b.access, c.access), trichotomy(a.access, c.access),
        access_lt(a.access, b.access) && access_lt(b.access, c.access) ==> access_lt(a.access, c.access),
        access_lt(c.access, b.access) && access_lt(b.access, a.access) ==> access_lt(c.access, a.access),
        access_lt(a.access, c.access) && access_lt(c.access, b.access) ==> access_lt(a.access, b.access),
        access_lt(b.access, a.access) && access_lt(a.access, c.access) ==> access_lt(b.access, c.access),
        access_lt(b.access, c.access) && access_lt(c.access, a.access) ==> access_lt(b.access, a.access),
        access_lt(c.access, a.access) && access_lt(a.access, b.access) ==> access_lt(c.access, b.access),
    ensures merge_member(merge_member(a, b), c) == merge_member(a, merge_member(b, c)),
{}

//@ obligation props=C32
pub proof fn lemma_merge_associative_without_conditions<ID, C: PartialOrd>(s1: Map<ID, MemberState<C>>, s2: Map<ID, MemberState<C>>, s3: Map<ID, MemberState<C>>,
        r12: Map<ID, MemberState<C>>, r23: Map<ID, MemberState<C>>, ra: Map<ID, MemberState<C>>, rb: Map<ID, MemberState<C>>)
    requires is_merge_of(s1, s2, r12), is_merge_of(r12, s3, ra), is_merge_of(s2, s3, r23), is_merge_of(s1, r23, rb),
        forall|id: ID| s1.contains_key(id) ==> no_conditions(#[trigger] s1[id]),
        forall|id: ID| s2.contains_key(id) ==> no_conditions(#[trigger] s2[id]),
        forall|id: ID| s3.contains_key(id) ==> no_conditions(#[trigger] s3[id]),
    ensures ra =~= rb,
{
    assert forall|id: ID| mget(ra, id) == mget(rb, id) by {
        assert(mget(r12, id) == merge_at(s1, s2, id));
        assert(mget(r23, id) == merge_at(s2, s3, id));
        assert(mget(ra, id) == merge_at(r12, s3, id));
        assert(mget(rb, id) == merge_at(s1, r23, id));
        if s1.contains_key(id) && s2.contains_key(id) && s3.contains_key(id) {
            let a = s1[id]; let b = s2[id]; let c = s3[id];
            lemma_access_order_without_conditions(a.access, b.access, c.access);
            lemma_access_order_without_conditions(c.access, b.access, a.access);
            lemma_access_order_without_conditions(a.access, c.access, b.access);
            lemma_access_order_without_conditions(b.access, a.access, c.access);
            lemma_access_order_without_conditions(b.access, c.access, a.access);
            lemma_access_order_without_conditions(c.access, a.access, b.access);
            lemma_merge_member_associative(a, b, c);
        }
    }
    assert forall|id: ID| ra.dom().contains(id) == rb.dom().contains(id) by {
        assert(mget(ra, id) == mget(rb, id));}
    assert forall|id: ID| ra.dom().contains(id) implies ra[id] == rb[id] by {
        assert(mget(ra, id) == mget(rb, id));}
}

// ---- "with totally ordered access conditions" (second half of the quantifier of C32) ------------------------------------------
pub open spec fn conditions_totally_ordered<C: PartialOrd>() -> bool {
    &&& forall|x: C, y: C| #[trigger] x.partial_cmp_spec(&y) is Some
    &&& forall|x: C, y: C| (#[trigger] x.partial_cmp_spec(&y) == Some(Ordering::Equal)) <==> x == y
    &&& forall|x: C, y: C| (#[trigger] x.partial_cmp_spec(&y) == Some(Ordering::Less)) <==> y.partial_cmp_spec(&x) == Some(Ordering::Greater)
    &&& forall|x: C, y: C, z: C| #[trigger] x.partial_cmp_spec(&y) == Some(Ordering::Less) && #[trigger] y.partial_cmp_spec(&z) == Some(Ordering::Less) ==> x.partial_cmp_spec(&z) == Some(Ordering::Less)
}

//@ obligation props=C32
pub proof fn lemma_merge_commutative_with_totally_ordered_conditions<C: PartialOrd>(m1: MemberState<C>, m2: MemberState<C>)
    requires conditions_totally_ordered::<C>(),
    ensures merge_member(m1, m2) == merge_member(m2, m1),
{}

//@ obligation props=C32
pub proof fn lemma_merge_associative_with_totally_ordered_conditions<C: PartialOrd>(a: MemberState<C>, b: MemberState<C>, c: MemberState<C>)
    requires conditions_totally_ordered::<C>(),
    ensures merge_member(merge_member(a, b), c) == merge_member(a, merge_member(b, c)),
{}

// ---- C31 kernel: merge_states ------------------------------------------------------------------------------------------------
pub open spec fn key_seen<K, V>(h: Seq<(K, V)>, k: K) -> bool { exists|i: int| 0 <= i < h.len() && #[trigger] h[i].0 == k }
// inner-loop invariant of merge_states: the groups of head h visited so far are merged in, the others still stand at hs
pub open spec fn partial_fold<ID: Hash + Eq, OP, C: PartialOrd>(states: StatesView<ID, OP, C>, hs: Seq<OP>, h: OP, seen: Seq<(ID, GroupMembersState<GroupMember<ID>, C>)>, g: ID, m: GroupMember<ID>) -> Option<MemberState<C>> {
    fold_member(states, if key_seen(seen, g) { hs.push(h) } else { hs }, g, m)
}
pub open spec fn merged_partial<ID: Hash + Eq, OP, C: PartialOrd>(states: StatesView<ID, OP, C>, hs: Seq<OP>, h: OP, seen: Seq<(ID, GroupMembersState<GroupMember<ID>, C>)>, cur: Map<ID, GroupMembersState<GroupMember<ID>, C>>) -> bool {
    &&& forall|g: ID| #[trigger] cur.contains_key(g) <==> group_in(states, hs, g) || key_seen(seen, g)
    &&& forall|g: ID, m: GroupMember<ID>| cur.contains_key(g) ==> mget(cur[g].members@, m) == #[trigger] partial_fold(states, hs, h, seen, g, m)
}
pub proof fn lemma_fold_push<ID: Hash + Eq, OP, C: PartialOrd>(states: StatesView<ID, OP, C>, hs: Seq<OP>, h: OP, g: ID, m: GroupMember<ID>)
    ensures fold_member(states, hs.push(h), g, m) == join_member(member_at(states, h, g, m), fold_member(states, hs, g, m)),
{
    assert(hs.push(h).drop_last() =~= hs);
    assert(hs.push(h).last() == h);
}
pub proof fn lemma_group_in_push<ID: Hash + Eq, OP, C>(states: StatesView<ID, OP, C>, hs: Seq<OP>, h: OP, g: ID)
    ensures group_in(states, hs.push(h), g) <==> group_in(states, hs, g) || group_at(states, h, g),
{
    let hp = hs.push(h);
    if group_in(states, hp, g) {
        let i = choose|i: int| 0 <= i < hp.len() && #[trigger] group_at(states, hp[i], g);
        if i < hs.len() { assert(hp[i] == hs[i]); assert(group_at(states, hs[i], g)); }
    }
    if group_in(states, hs, g) {
        let i = choose|i: int| 0 <= i < hs.len() && #[trigger] group_at(states, hs[i], g);
        assert(hp[i] == hs[i]); assert(group_at(states, hp[i], g));
    }
    if group_at(states, h, g) { assert(hp[hs.len() as int] == h); assert(group_at(states, hp[hs.len() as int], g)); }
}
pub proof fn lemma_fold_none<ID: Hash + Eq, OP, C: PartialOrd>(states: StatesView<ID, OP, C>, hs: Seq<OP>, g: ID, m: GroupMember<ID>)
    requires !group_in(states, hs, g),
    ensures fold_member(states, hs, g, m) is None,
    decreases hs.len(),
{
    if hs.len() > 0 {
        assert(hs.drop_last().push(hs.last()) =~= hs);
        lemma_group_in_push(states, hs.drop_last(), hs.last(), g);
        lemma_fold_none(states, hs.drop_last(), g, m);
    }
}
pub proof fn lemma_kv_current_not_seen<K, V>(snap: Seq<(K, V)>, h: Seq<(K, V)>, rem: Seq<(K, V)>, s1: Map<K, V>)
    requires entries_of_map(snap, s1), h + rem == snap, rem.len() > 0,
    ensures !key_seen(h, snap[h.len() as int].0), snap[h.len() as int] == rem[0],
{
    assert(snap[h.len() as int] == (h + rem)[h.len() as int]);
    assert forall|i: int| 0 <= i < h.len() implies h[i].0 != snap[h.len() as int].0 by {
        assert(h[i] == (h + rem)[i]);
    }
}
pub proof fn lemma_key_seen_push<K, V>(h: Seq<(K, V)>, x: (K, V), k: K)
    ensures key_seen(h.push(x), k) <==> key_seen(h, k) || k == x.0,
{
    let h2 = h.push(x);
    if key_seen(h2, k) { let i = choose|i: int| 0 <= i < h2.len() && #[trigger] h2[i].0 == k; if i < h.len() { assert(h2[i] == h[i]); } }
    if key_seen(h, k) { let i = choose|i: int| 0 <= i < h.len() && #[trigger] h[i].0 == k; assert(h2[i] == h[i]); }
    if k == x.0 { assert(h2[h.len() as int] == x); }
}
// one step of the inner loop: group x.0 of head h, recorded there as x.1, merged into (or inserted in) cur
pub proof fn lemma_merge_states_step<ID: Hash + Eq, OP, C: PartialOrd>(states: StatesView<ID, OP, C>, hs: Seq<OP>, h: OP, seen: Seq<(ID, GroupMembersState<GroupMember<ID>, C>)>, x: (ID, GroupMembersState<GroupMember<ID>, C>),
        cur: Map<ID, GroupMembersState<GroupMember<ID>, C>>, nx: Map<ID, GroupMembersState<GroupMember<ID>, C>>)
    requires
        merged_partial(states, hs, h, seen, cur),
        !key_seen(seen, x.0),
        states.contains_key(h) && states[h]@.contains_key(x.0) && states[h]@[x.0].members@ == x.1.members@,
        nx.contains_key(x.0),
        forall|g: ID| g != x.0 ==> (#[trigger] nx.contains_key(g) <==> cur.contains_key(g)),
        forall|g: ID| g != x.0 && cur.contains_key(g) ==> #[trigger] nx[g] == cur[g],
        cur.contains_key(x.0) ==> is_merge_of(x.1.members@, cur[x.0].members@, nx[x.0].members@),
        !cur.contains_key(x.0) ==> nx[x.0].members@ == x.1.members@,
    ensures merged_partial(states, hs, h, seen.push(x), nx),
{
    let s2 = seen.push(x);
    assert forall|g: ID| #[trigger] nx.contains_key(g) <==> group_in(states, hs, g) || key_seen(s2, g) by {
        lemma_key_seen_push(seen, x, g);
        if g != x.0 { assert(nx.contains_key(g) <==> cur.contains_key(g)); }
    }
    assert forall|g: ID, m: GroupMember<ID>| nx.contains_key(g) implies mget(nx[g].members@, m) == #[trigger] partial_fold(states, hs, h, s2, g, m) by {
        lemma_key_seen_push(seen, x, g);
        if g == x.0 {
            lemma_fold_push(states, hs, h, g, m);
            assert(member_at(states, h, g, m) == mget(x.1.members@, m));
            if cur.contains_key(g) {
                assert(mget(cur[g].members@, m) == partial_fold(states, hs, h, seen, g, m));
                assert(mget(nx[g].members@, m) == merge_at(x.1.members@, cur[g].members@, m));
            } else {
                assert(!group_in(states, hs, g));
                lemma_fold_none(states, hs, g, m);
            }
        } else {
            assert(cur.contains_key(g));
            assert(nx[g] == cur[g]);
            assert(mget(cur[g].members@, m) == partial_fold(states, hs, h, seen, g, m));
        }
    }
}
// end of the inner loop: every group of head h was visited
pub proof fn lemma_merge_states_head_done<ID: Hash + Eq, OP, C: PartialOrd>(states: StatesView<ID, OP, C>, hs: Seq<OP>, h: OP, seen: Seq<(ID, GroupMembersState<GroupMember<ID>, C>)>, cur: Map<ID, GroupMembersState<GroupMember<ID>, C>>)
    requires
        merged_partial(states, hs, h, seen, cur),
        states.contains_key(h),
        forall|g: ID| key_seen(seen, g) <==> #[trigger] states[h]@.contains_key(g),
    ensures merged_heads(states, hs.push(h), cur),
{
    assert forall|g: ID| #[trigger] cur.contains_key(g) <==> group_in(states, hs.push(h), g) by { lemma_group_in_push(states, hs, h, g); }
    assert forall|g: ID, m: GroupMember<ID>| cur.contains_key(g) implies mget(cur[g].members@, m) == #[trigger] fold_member(states, hs.push(h), g, m) by {
        assert(mget(cur[g].members@, m) == partial_fold(states, hs, h, seen, g, m));
        if !key_seen(seen, g) { lemma_fold_push(states, hs, h, g, m); assert(member_at(states, h, g, m) is None); }
    }
}
pub proof fn lemma_entries_seen_all<K, V>(s: Seq<(K, V)>, m: Map<K, V>)
    requires entries_of_map(s, m),
    ensures forall|k: K| key_seen(s, k) <==> #[trigger] m.contains_key(k),
{
    assert forall|k: K| key_seen(s, k) <==> #[trigger] m.contains_key(k) by {
        if key_seen(s, k) { let i = choose|i: int| 0 <= i < s.len() && #[trigger] s[i].0 == k; }
    }
}

// ---- C31: the merged state does not depend on the order in which the heads are enumerated (unconditioned accesses) -----------
// the merge rule picks the greater of two member states in the order (member_counter, access_counter, lower access level)
pub open spec fn key_gt<C>(a: MemberState<C>, b: MemberState<C>) -> bool {
    a.member_counter > b.member_counter || (a.member_counter == b.member_counter && (a.access_counter > b.access_counter
        || (a.access_counter == b.access_counter && level_rank(a.access.level) < level_rank(b.access.level))))
}
pub proof fn lemma_merge_member_picks_the_greater<C: PartialOrd>(a: MemberState<C>, b: MemberState<C>)
    requires no_conditions(a), no_conditions(b),
    ensures merge_member(a, b) == (if key_gt(a, b) { a } else { b }), !key_gt(a, b) && !key_gt(b, a) ==> a == b,
{
    lemma_access_order_without_conditions(a.access, b.access, a.access);
    if !key_gt(a, b) && !key_gt(b, a) {
        assert(level_rank(a.access.level) == level_rank(b.access.level));
        assert(a.access.level == b.access.level);
        assert(a.access == b.access);
    }
}
pub open spec fn recorded_without_conditions<ID: Hash + Eq, OP, C>(states: StatesView<ID, OP, C>) -> bool {
    forall|h: OP, g: ID, m: GroupMember<ID>| (#[trigger] member_at(states, h, g, m)) is Some ==> no_conditions(member_at(states, h, g, m)->Some_0)
}
// x is a greatest recorded state of (g, m) among the heads hs (None: no head records one)
pub open spec fn is_top<ID: Hash + Eq, OP, C>(states: StatesView<ID, OP, C>, hs: Seq<OP>, g: ID, m: GroupMember<ID>, x: Option<MemberState<C>>) -> bool {
    &&& x is None ==> forall|i: int| 0 <= i < hs.len() ==> (#[trigger] member_at(states, hs[i], g, m)) is None
    &&& x is Some ==> exists|i: int| 0 <= i < hs.len() && #[trigger] member_at(states, hs[i], g, m) == x
    &&& x is Some ==> forall|i: int| 0 <= i < hs.len() && (#[trigger] member_at(states, hs[i], g, m)) is Some ==> !key_gt(member_at(states, hs[i], g, m)->Some_0, x->Some_0)
}
pub proof fn lemma_fold_is_top<ID: Hash + Eq, OP, C: PartialOrd>(states: StatesView<ID, OP, C>, hs: Seq<OP>, g: ID, m: GroupMember<ID>)
    requires recorded_without_conditions(states),
    ensures is_top(states, hs, g, m, fold_member(states, hs, g, m)),
    decreases hs.len(),
{
    if hs.len() > 0 {
        let pre = hs.drop_last();
        let acc = fold_member(states, pre, g, m);
        let x = member_at(states, hs.last(), g, m);
        let r = fold_member(states, hs, g, m);
        lemma_fold_is_top(states, pre, g, m);
        assert forall|i: int| 0 <= i < pre.len() implies pre[i] == hs[i] by {}
        if acc is Some {
            let j = choose|j: int| 0 <= j < pre.len() && #[trigger] member_at(states, pre[j], g, m) == acc;
            assert(member_at(states, hs[j], g, m) == acc);
        }
        if x is Some && acc is Some { lemma_merge_member_picks_the_greater(x->Some_0, acc->Some_0); }
        if r is Some {
            if r == x { assert(member_at(states, hs[hs.len() - 1], g, m) == r); }
            assert forall|i: int| 0 <= i < hs.len() && (#[trigger] member_at(states, hs[i], g, m)) is Some implies !key_gt(member_at(states, hs[i], g, m)->Some_0, r->Some_0) by {
                if i < pre.len() { assert(member_at(states, pre[i], g, m) is Some); }
            }
        } else {
            assert forall|i: int| 0 <= i < hs.len() implies (#[trigger] member_at(states, hs[i], g, m)) is None by {
                if i < pre.len() { assert(member_at(states, pre[i], g, m) is None); }
            }
        }
    }
}
//@ obligation props=C31
pub proof fn lemma_merged_heads_independent_of_head_order_without_conditions<ID: Hash + Eq, OP, C: PartialOrd>(states: StatesView<ID, OP, C>, hs1: Seq<OP>, hs2: Seq<OP>,
        r1: Map<ID, GroupMembersState<GroupMember<ID>, C>>, r2: Map<ID, GroupMembersState<GroupMember<ID>, C>>)
    requires
        forall|h: OP| hs1.contains(h) <==> hs2.contains(h),      // two enumerations of the same set of heads
        recorded_without_conditions(states),
        merged_heads(states, hs1, r1), merged_heads(states, hs2, r2),
    ensures
        forall|g: ID| r1.contains_key(g) <==> r2.contains_key(g),
        forall|g: ID| #[trigger] r1.contains_key(g) ==> r1[g].members@ =~= r2[g].members@,
{
    assert forall|g: ID| r1.contains_key(g) <==> r2.contains_key(g) by {
        if group_in(states, hs1, g) { let i = choose|i: int| 0 <= i < hs1.len() && #[trigger] group_at(states, hs1[i], g); assert(hs1.contains(hs1[i])); let j = choose|j: int| 0 <= j < hs2.len() && hs2[j] == hs1[i]; assert(group_at(states, hs2[j], g)); }
        if group_in(states, hs2, g) { let i = choose|i: int| 0 <= i < hs2.len() && #[trigger] group_at(states, hs2[i], g); assert(hs2.contains(hs2[i])); let j = choose|j: int| 0 <= j < hs1.len() && hs1[j] == hs2[i]; assert(group_at(states, hs1[j], g)); }
    }
    assert forall|g: ID| #[trigger] r1.contains_key(g) implies r1[g].members@ =~= r2[g].members@ by {
        assert(r2.contains_key(g));
        assert forall|m: GroupMember<ID>| mget(r1[g].members@, m) == mget(r2[g].members@, m) by {
            let x = fold_member(states, hs1, g, m);
            let y = fold_member(states, hs2, g, m);
            lemma_fold_is_top(states, hs1, g, m);
            lemma_fold_is_top(states, hs2, g, m);
            if x is Some {
                let i = choose|i: int| 0 <= i < hs1.len() && #[trigger] member_at(states, hs1[i], g, m) == x;
                assert(hs1.contains(hs1[i]));
                let j = choose|j: int| 0 <= j < hs2.len() && hs2[j] == hs1[i];
                assert(member_at(states, hs2[j], g, m) is Some);
                assert(y is Some);
            }
            if y is Some {
                let i = choose|i: int| 0 <= i < hs2.len() && #[trigger] member_at(states, hs2[i], g, m) == y;
                assert(hs2.contains(hs2[i]));
                let j = choose|j: int| 0 <= j < hs1.len() && hs1[j] == hs2[i];
                assert(member_at(states, hs1[j], g, m) is Some);
                assert(x is Some);
            }
            if x is Some && y is Some {
                let i = choose|i: int| 0 <= i < hs1.len() && #[trigger] member_at(states, hs1[i], g, m) == x;
                assert(hs1.contains(hs1[i]));
                let j = choose|j: int| 0 <= j < hs2.len() && hs2[j] == hs1[i];
                assert(!key_gt(member_at(states, hs2[j], g, m)->Some_0, y->Some_0));
                let i2 = choose|i: int| 0 <= i < hs2.len() && #[trigger] member_at(states, hs2[i], g, m) == y;
                assert(hs2.contains(hs2[i2]));
                let j2 = choose|j: int| 0 <= j < hs1.len() && hs1[j] == hs2[i2];
                assert(!key_gt(member_at(states, hs1[j2], g, m)->Some_0, x->Some_0));
                lemma_merge_member_picks_the_greater(x->Some_0, y->Some_0);
            }
        }
        assert forall|m: GroupMember<ID>| r1[g].members@.dom().contains(m) <==> r2[g].members@.dom().contains(m) by {
            assert(mget(r1[g].members@, m) == mget(r2[g].members@, m));
        }
        assert forall|m: GroupMember<ID>| r1[g].members@.contains_key(m) implies r1[g].members@[m] == r2[g].members@[m] by {
            assert(mget(r1[g].members@, m) == mget(r2[g].members@, m));
        }
    }
}

// "including access conditions" (C31): already for two heads the merged state of one member must not depend on which head is
// enumerated first. With totally ordered conditions this does NOT hold for the Access order of the code (see known findings).
//@ obligation props=C31
pub proof fn lemma_merged_heads_independent_of_head_order_with_totally_ordered_conditions<ID: Hash + Eq, OP, C: PartialOrd>(states: StatesView<ID, OP, C>, h1: OP, h2: OP, g: ID, m: GroupMember<ID>)
    requires conditions_totally_ordered::<C>(),
    ensures fold_member(states, seq![h1, h2], g, m) == fold_member(states, seq![h2, h1], g, m),
{
    reveal_with_fuel(fold_member, 3);
    assert(seq![h1, h2].drop_last() =~= seq![h1]); assert(seq![h2, h1].drop_last() =~= seq![h2]);
    assert(seq![h1].drop_last() =~= Seq::<OP>::empty()); assert(seq![h2].drop_last() =~= Seq::<OP>::empty());
}

pub proof fn lemma_listed_push<ID, C>(h: Seq<(ID, Access<C>)>, x: (ID, Access<C>))
    ensures
        forall|id: ID| listed(h.push(x), id) <==> listed(h, id) || id == x.0,
        forall|id: ID, a: Access<C>| listed_with(h, id, a) ==> listed_with(h.push(x), id, a),
        listed_with(h.push(x), x.0, x.1),
{
    let h2 = h.push(x);
    assert forall|id: ID| listed(h2, id) <==> listed(h, id) || id == x.0 by {
        if listed(h2, id) { let i = choose|i: int| 0 <= i < h2.len() && #[trigger] h2[i].0 == id; if i < h.len() { assert(h2[i] == h[i]); } }
        if listed(h, id) { let i = choose|i: int| 0 <= i < h.len() && #[trigger] h[i].0 == id; assert(h2[i] == h[i]); }
        if id == x.0 { assert(h2[h.len() as int] == x); }
    }
    assert forall|id: ID, a: Access<C>| listed_with(h, id, a) implies listed_with(h2, id, a) by {
        let i = choose|i: int| 0 <= i < h.len() && #[trigger] h[i] == (id, a); assert(h2[i] == h[i]);
    }
    assert(h2[h.len() as int] == (x.0, x.1));
}
