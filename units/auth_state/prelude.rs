pub trait Conditions: Clone + PartialEq + PartialOrd {}


pub mod km_ax {
    use super::*;
    pub uninterp spec fn key_matches<K, Q: ?Sized>(kk: K, k: &Q) -> bool;
    // `impl Borrow<K> for K` is the identity: the stored key matched by `&k` is the key equal to k
    pub broadcast axiom fn key_matches_same<K>(kk: K, k: &K) ensures #[trigger] key_matches::<K, K>(kk, k) == (kk == *k);
}
pub use km_ax::*;
broadcast use key_matches_same;
pub assume_specification<'a, K, V, S, A, Q> [std::collections::HashMap::<K, V, S, A>::get_mut::<Q>] (m: &'a mut HashMap<K, V, S, A>, k: &Q) -> (r: Option<&'a mut V>)
    where A: Allocator, K: Eq + Hash + Borrow<Q>, Q: std::marker::MetaSized + Hash + Eq + ?Sized, S: BuildHasher,
    ensures
        obeys_key_model::<K>() && builds_valid_hashers::<S>() ==> match r {
            Some(v) => contains_borrowed_key(old(m)@, k) && maps_borrowed_key_to_value(old(m)@, k, *v)
                 && (forall|kk: K| #[trigger] old(m)@.contains_key(kk) && key_matches(kk, k) ==> final(m)@ == old(m)@.insert(kk, *final(v))),
            None => !contains_borrowed_key(old(m)@, k) && final(m)@ == old(m)@,
        }
;

pub open spec fn entries_of_map<K, V>(s: Seq<(K, V)>, m: Map<K, V>) -> bool {
    &&& forall|i: int| 0 <= i < s.len() ==> m.contains_key(#[trigger] s[i].0) && m[s[i].0] == s[i].1
    &&& forall|i: int, j: int| 0 <= i < j < s.len() ==> s[i].0 != s[j].0
    &&& forall|k: K| m.contains_key(k) ==> exists|i: int| 0 <= i < s.len() && #[trigger] s[i].0 == k
}
#[verifier::external_body]
pub fn verif_hashmap_into_entries<K, V, S>(m: HashMap<K, V, S>) -> (r: Vec<(K, V)>)
    ensures entries_of_map(r@, m@)
{ unimplemented!() }

// ---- derived impls (assumed structural; Rust reference) -----------------------------------------------------------------
pub open spec fn lawful_clone<T: Clone>() -> bool { forall|a: T, b: T| call_ensures(T::clone, (&a,), b) ==> a == b }
pub open spec fn lawful_eq<T: PartialEq>() -> bool { <T as PartialEqSpec>::obeys_eq_spec() && forall|a: T, b: T| #[trigger] a.eq_spec(&b) == (a == b) }

impl<C: Clone> Clone for Access<C> {
    #[verifier::external_body]
    fn clone(&self) -> (r: Self) ensures lawful_clone::<C>() ==> r == *self { unimplemented!() }
}
impl<C: Clone> Clone for MemberState<C> {
    #[verifier::external_body]
    fn clone(&self) -> (r: Self) ensures lawful_clone::<C>() ==> r == *self { unimplemented!() }
}
impl<ID: Hash + Eq + Clone, C: Clone> Clone for GroupMembersState<ID, C> {
    #[verifier::external_body]
    fn clone(&self) -> (r: Self) ensures lawful_clone::<C>() && lawful_clone::<ID>() ==> r.members@ == self.members@ { unimplemented!() }
}

// ---- AccessLevel: derived Ord on a field-less enum is declaration order (assumed; Rust reference) ------------------------
pub open spec fn level_rank(l: AccessLevel) -> int {
    match l { AccessLevel::Pull => 0, AccessLevel::Read => 1, AccessLevel::Write => 2, AccessLevel::Manage => 3 }
}
pub open spec fn int_cmp(a: int, b: int) -> Ordering {
    if a < b { Ordering::Less } else if a == b { Ordering::Equal } else { Ordering::Greater }
}
impl PartialEqSpecImpl for AccessLevel {
    open spec fn obeys_eq_spec() -> bool { true }
    open spec fn eq_spec(&self, other: &AccessLevel) -> bool { *self == *other }
}
impl PartialOrdSpecImpl for AccessLevel {
    open spec fn obeys_partial_cmp_spec() -> bool { true }
    open spec fn partial_cmp_spec(&self, other: &AccessLevel) -> Option<Ordering> { Some(int_cmp(level_rank(*self), level_rank(*other))) }
}
impl OrdSpecImpl for AccessLevel {
    open spec fn obeys_cmp_spec() -> bool { true }
    open spec fn cmp_spec(&self, other: &AccessLevel) -> Ordering { int_cmp(level_rank(*self), level_rank(*other)) }
}

// ---- Access<C>: the order the real `partial_cmp` must implement (exact transcription; the laws the property needs are lemmas) ----
pub open spec fn access_pcmp<C: PartialOrd>(a: Access<C>, b: Access<C>) -> Option<Ordering> {
    let lv = int_cmp(level_rank(a.level), level_rank(b.level));
    let lv_no_eq = if lv == Ordering::Less { Ordering::Less } else { Ordering::Greater };
    match (a.conditions, b.conditions) {
        (Some(ca), Some(cb)) => match ca.partial_cmp_spec(&cb) {
            Some(Ordering::Greater) => Some(lv_no_eq),
            Some(Ordering::Equal) => Some(lv_no_eq),
            Some(Ordering::Less) => Some(Ordering::Less),
            None => None,
        },
        (None, Some(_)) => Some(lv_no_eq),
        _ => Some(lv),
    }
}
pub open spec fn access_lt<C: PartialOrd>(a: Access<C>, b: Access<C>) -> bool { access_pcmp(a, b) == Some(Ordering::Less) }
impl<C: PartialOrd> PartialOrdSpecImpl for Access<C> {
    open spec fn obeys_partial_cmp_spec() -> bool { <C as PartialOrdSpec>::obeys_partial_cmp_spec() }
    open spec fn partial_cmp_spec(&self, other: &Access<C>) -> Option<Ordering> { access_pcmp(*self, *other) }
}
// derived PartialEq on Access<C>: fieldwise (assumed)
impl<C: PartialEq> PartialEqSpecImpl for Access<C> {
    open spec fn obeys_eq_spec() -> bool { lawful_eq::<C>() }
    open spec fn eq_spec(&self, other: &Access<C>) -> bool { *self == *other }
}

// ---- membership vocabulary of the property -------------------------------------------------------------------------------
pub open spec fn active<ID, C>(m: Map<ID, MemberState<C>>, id: ID) -> bool { m.contains_key(id) && m[id].member_counter % 2 == 1 }
pub open spec fn manager<ID, C>(m: Map<ID, MemberState<C>>, id: ID) -> bool { active(m, id) && m[id].access.level == AccessLevel::Manage }
pub open spec fn counters_bounded<ID, C>(m: Map<ID, MemberState<C>>) -> bool {
    forall|id: ID| #[trigger] m.contains_key(id) ==> m[id].member_counter < usize::MAX && m[id].access_counter < usize::MAX
}
pub open spec fn lawful_params<ID: PartialEq, C: Clone + PartialEq>() -> bool {
    obeys_key_model::<ID>() && lawful_eq::<ID>() && lawful_eq::<C>() && lawful_clone::<C>()
}

// ---- merge: the per-member rule of the property statement -------------------------------------------------------------------
// higher member_counter wins entirely; tie -> higher access_counter wins the access; tie -> the lower of the two accesses
pub open spec fn merge_member<C: PartialOrd>(m1: MemberState<C>, m2: MemberState<C>) -> MemberState<C> {
    if m1.member_counter > m2.member_counter { m1 }
    else if m1.member_counter < m2.member_counter { m2 }
    else if m1.access_counter > m2.access_counter { MemberState { member_counter: m2.member_counter, access: m1.access, access_counter: m1.access_counter } }
    else if m1.access_counter < m2.access_counter { m2 }
    else if access_lt(m1.access, m2.access) { MemberState { member_counter: m2.member_counter, access: m1.access, access_counter: m2.access_counter } }
    else { m2 }
}
pub open spec fn merge_at<ID, C: PartialOrd>(s1: Map<ID, MemberState<C>>, s2: Map<ID, MemberState<C>>, id: ID) -> Option<MemberState<C>> {
    if s1.contains_key(id) && s2.contains_key(id) { Some(merge_member(s1[id], s2[id])) }
    else if s1.contains_key(id) { Some(s1[id]) }
    else if s2.contains_key(id) { Some(s2[id]) }
    else { None }
}
pub open spec fn mget<ID, C>(m: Map<ID, MemberState<C>>, id: ID) -> Option<MemberState<C>> { if m.contains_key(id) { Some(m[id]) } else { None } }
// r is the pointwise merge of s1 and s2
pub open spec fn is_merge_of<ID, C: PartialOrd>(s1: Map<ID, MemberState<C>>, s2: Map<ID, MemberState<C>>, r: Map<ID, MemberState<C>>) -> bool {
    forall|id: ID| #[trigger] mget(r, id) == merge_at(s1, s2, id)
}
pub open spec fn in_hist<ID, C>(h: Seq<(ID, MemberState<C>)>, id: ID) -> bool { exists|i: int| 0 <= i < h.len() && #[trigger] h[i].0 == id }
// loop invariant of merge: `next` is state_2 merged with the entries of state_1 visited so far
pub open spec fn merged_so_far<ID, C: PartialOrd>(h: Seq<(ID, MemberState<C>)>, s2: Map<ID, MemberState<C>>, next: Map<ID, MemberState<C>>) -> bool {
    &&& forall|i: int| 0 <= i < h.len() ==> mget(next, #[trigger] h[i].0) == Some(if s2.contains_key(h[i].0) { merge_member(h[i].1, s2[h[i].0]) } else { h[i].1 })
    &&& forall|id: ID| !in_hist(h, id) ==> #[trigger] mget(next, id) == mget(s2, id)
}

// ---- C31 kernel: merge_states over a set of heads ----------------------------------------------------------------------------
pub trait IdentityHandle: Copy + PartialEq + Eq + Hash {}
pub trait OperationId: Copy + PartialEq + Eq + Hash {}
#[verifier::external_body]
#[verifier::reject_recursive_types(N)]
#[verifier::reject_recursive_types(E)]
pub struct DiGraphMap<N, E> { p: core::marker::PhantomData<(N, E)> }
// the elements of the set, each exactly once, in an unspecified order (contract of `HashSet::iter`)
pub open spec fn enumerates<T>(hs: Seq<T>, s: Set<T>) -> bool {
    &&& hs.no_duplicates()
    &&& forall|i: int| 0 <= i < hs.len() ==> s.contains(#[trigger] hs[i])
    &&& forall|x: T| s.contains(x) ==> exists|i: int| 0 <= i < hs.len() && #[trigger] hs[i] == x
}
pub open spec fn derefs<T>(r: Seq<&T>) -> Seq<T> { Seq::new(r.len(), |i: int| *r[i]) }
#[verifier::external_body]
pub fn verif_hashset_ref_elems<'a, T>(s: &'a HashSet<T>) -> (r: Vec<&'a T>)
    ensures enumerates(derefs(r@), s@)
{ unimplemented!() }
#[verifier::external_body]
pub fn verif_cloned_collect<T: Clone>(s: &HashSet<T>) -> (r: Vec<T>) { unimplemented!() }

pub type StatesView<ID, OP, C> = Map<OP, HashMap<ID, GroupMembersState<GroupMember<ID>, C>>>;
// the state of member m of group g recorded at head h (None: h unknown, or g not a group there, or m never a member there)
pub open spec fn member_at<ID: Hash + Eq, OP, C>(states: StatesView<ID, OP, C>, h: OP, g: ID, m: GroupMember<ID>) -> Option<MemberState<C>> {
    if states.contains_key(h) && states[h]@.contains_key(g) { mget(states[h]@[g].members@, m) } else { None }
}
pub open spec fn group_at<ID: Hash + Eq, OP, C>(states: StatesView<ID, OP, C>, h: OP, g: ID) -> bool { states.contains_key(h) && states[h]@.contains_key(g) }
pub open spec fn group_in<ID: Hash + Eq, OP, C>(states: StatesView<ID, OP, C>, hs: Seq<OP>, g: ID) -> bool { exists|i: int| 0 <= i < hs.len() && #[trigger] group_at(states, hs[i], g) }
pub open spec fn join_member<C: PartialOrd>(x: Option<MemberState<C>>, acc: Option<MemberState<C>>) -> Option<MemberState<C>> {
    match (x, acc) { (Some(x), Some(a)) => Some(merge_member(x, a)), (Some(x), None) => Some(x), (None, a) => a }
}
// merging the recorded states of (g, m) head by head, in the order hs
pub open spec fn fold_member<ID: Hash + Eq, OP, C: PartialOrd>(states: StatesView<ID, OP, C>, hs: Seq<OP>, g: ID, m: GroupMember<ID>) -> Option<MemberState<C>>
    decreases hs.len()
{
    if hs.len() == 0 { None } else { join_member(member_at(states, hs.last(), g, m), fold_member(states, hs.drop_last(), g, m)) }
}
// cur is the head-by-head merge of the states recorded at hs
pub open spec fn merged_heads<ID: Hash + Eq, OP, C: PartialOrd>(states: StatesView<ID, OP, C>, hs: Seq<OP>, cur: Map<ID, GroupMembersState<GroupMember<ID>, C>>) -> bool {
    &&& forall|g: ID| #[trigger] cur.contains_key(g) <==> group_in(states, hs, g)
    &&& forall|g: ID, m: GroupMember<ID>| cur.contains_key(g) ==> mget(cur[g].members@, m) == #[trigger] fold_member(states, hs, g, m)
}

// ---- create: the listed initial members ---------------------------------------------------------------------------------------
pub open spec fn listed<ID, C>(l: Seq<(ID, Access<C>)>, id: ID) -> bool { exists|i: int| 0 <= i < l.len() && #[trigger] l[i].0 == id }
pub open spec fn listed_with<ID, C>(l: Seq<(ID, Access<C>)>, id: ID, a: Access<C>) -> bool { exists|i: int| 0 <= i < l.len() && #[trigger] l[i] == (id, a) }
pub open spec fn created_from<ID, C>(m: Map<ID, MemberState<C>>, l: Seq<(ID, Access<C>)>) -> bool {
    &&& forall|id: ID| #[trigger] m.contains_key(id) <==> listed(l, id)
    &&& forall|id: ID| #[trigger] m.contains_key(id) ==> m[id].member_counter == 1 && m[id].access_counter == 0 && listed_with(l, id, m[id].access)
}

// ---- apply_action ------------------------------------------------------------------------------------------------------------
impl<ID: Clone, C: Clone> Clone for GroupAction<ID, C> {
    #[verifier::external_body]
    fn clone(&self) -> (r: Self) ensures lawful_clone::<C>() && lawful_clone::<ID>() ==> r == *self { unimplemented!() }
}
impl<ID: Hash + Eq, C> Default for GroupMembersState<ID, C> {
    #[verifier::external_body]
    fn default() -> (r: Self) ensures r.members@ == Map::<ID, MemberState<C>>::empty() { unimplemented!() }
}
pub open spec fn result_state<ID: IdentityHandle, C: Conditions>(r: StateChangeResult<ID, C>) -> Map<ID, GroupMembersState<GroupMember<ID>, C>> {
    match r { StateChangeResult::Ok { state } => state@, StateChangeResult::Error { state, .. } => state@, StateChangeResult::Filtered { state } => state@ }
}
pub open spec fn group_members<ID, C>(gs: Map<ID, GroupMembersState<GroupMember<ID>, C>>, g: ID) -> Map<GroupMember<ID>, MemberState<C>> where ID: Hash + Eq { gs[g].members@ }
