pub type SeqNum = u32;
pub struct VerifyingKey { pub k: [u8; 32] }
pub trait LogId: Ord {}
pub struct EncodeError { pub e: u8 }
pub struct SqlxError { pub e: u8 }
pub enum SqliteError { Sqlite(SqlxError), Encode(String, EncodeError), Decode(String) }
pub struct Pool { pub p: u8 }
pub struct SqliteStore { pub pool: Pool }
pub struct LogHeightRow { pub log_id: Vec<u8>, pub seq_num: SeqNum }
pub struct Db { pub d: u8 }

#[verifier::external_body]
pub fn verif_opaque_string() -> String { unimplemented!() }
#[verifier::external_body]
pub fn verif_opaque_string_of<T>(args: T) -> String { unimplemented!() }
// `s.repeat(n)`: std panics on capacity overflow (s.len() * n > isize::MAX)
#[verifier::external_body]
pub fn verif_str_repeat(s: &str, n: usize) -> (r: String)
    requires n <= 0xFFFF_FFFF
{ unimplemented!() }
#[verifier::external_body]
pub fn encode_cbor<T>(v: &T) -> (r: Result<Vec<u8>, EncodeError>) { unimplemented!() }

// sqlx query builder (opaque)
pub struct QueryAs<O> { pub g: Ghost<Option<O>> }
#[verifier::external_body]
pub fn query_as<D, O>(sql: &(impl ?Sized)) -> (r: QueryAs<O>) { unimplemented!() }
impl<O> QueryAs<O> {
    #[verifier::external_body]
    pub fn bind<T>(self, v: T) -> (r: QueryAs<O>) { unimplemented!() }
    #[verifier::external_body]
    pub fn fetch_all(self, pool: &Pool) -> (r: Result<Vec<O>, SqlxError>) { unimplemented!() }
    // any row (any u32 column values SQLite's SUM/COUNT may produce and sqlx decodes) or none
    #[verifier::external_body]
    pub fn fetch_optional(self, pool: &Pool) -> (r: Result<Option<O>, SqlxError>) { unimplemented!() }
}
impl vstd::std_specs::convert::FromSpecImpl<SqlxError> for SqliteError {
    open spec fn obeys_from_spec() -> bool { true }
    open spec fn from_spec(e: SqlxError) -> Self { SqliteError::Sqlite(e) }
}
impl From<SqlxError> for SqliteError {
    fn from(e: SqlxError) -> (r: Self) { SqliteError::Sqlite(e) }
}
// row -> (log id, seq num) (decode_cbor of the stored log id; may fail)
impl LogHeightRow {
    #[verifier::external_body]
    pub fn try_into<L>(self) -> (r: Result<(L, SeqNum), SqliteError>) { unimplemented!() }
}

