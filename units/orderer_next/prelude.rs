pub struct PhantomData<X> { pub g: Ghost<Option<X>> }
pub trait OperationId {}
pub trait Ordering<ID> {}

// tokio::sync::{Mutex, Notify}: opaque (schedules are not modelled)
pub struct MutexGuard { pub g: u8 }
pub struct Mutex<X> { pub x: X }
impl<X> Mutex<X> {
    #[verifier::external_body]
    pub fn lock(&self) -> (r: MutexGuard) { unimplemented!() }
}
pub struct Notify { pub n: u8 }
impl Notify {
    #[verifier::external_body]
    pub fn notified(&self) { unimplemented!() }
}

// ---- contract-only store --------------------------------------------------------------------------------------------------
pub mod store_ax {
    use super::*;
    pub struct Tok { pub n: int }
    pub uninterp spec fn t_queue<ID>(t: Tok) -> Seq<ID>;          // ready queue (released, not yet taken), oldest first
    pub uninterp spec fn t_ops<T, ID>(t: Tok) -> Map<ID, T>;      // operations by id
    pub uninterp spec fn t_pop(t: Tok) -> Tok;                   // ready queue without its head; nothing else changes
    pub broadcast axiom fn ax_pop_queue<ID>(t: Tok)
        ensures #[trigger] t_queue::<ID>(t_pop(t)) == t_queue::<ID>(t).skip(1);
    pub broadcast axiom fn ax_pop_ops<T, ID>(t: Tok)
        ensures #[trigger] t_ops::<T, ID>(t_pop(t)) == t_ops::<T, ID>(t);
}
pub use store_ax::*;
broadcast use {ax_pop_queue, ax_pop_ops};

pub trait Db {
    spec fn committed(&self) -> Tok;   // durable state
    spec fn txview(&self) -> Tok;      // state seen inside the open transaction
    spec fn in_tx(&self) -> bool;
}
pub trait Transaction: Db {
    type Error;
    type Permit;
    // begin: a fresh transaction over the committed state (a previously held permit that went out of scope was rolled back)
    fn begin(&mut self) -> (r: Result<Self::Permit, Self::Error>)
        ensures
            final(self).committed() == old(self).committed(),
            r is Ok ==> final(self).in_tx() && final(self).txview() == old(self).committed(),
            r is Err ==> !final(self).in_tx();
    fn commit(&mut self, permit: Self::Permit) -> (r: Result<(), Self::Error>)
        requires old(self).in_tx(),
        ensures
            !final(self).in_tx(),
            r is Ok ==> final(self).committed() == old(self).txview(),
            r is Err ==> final(self).committed() == old(self).committed();
}
pub trait OrdererStore<ID>: Db {
    type Error;
    fn take_next_ready(&mut self) -> (r: Result<Option<ID>, Self::Error>)
        requires old(self).in_tx(),
        ensures
            final(self).in_tx(), final(self).committed() == old(self).committed(),
            r is Err ==> final(self).txview() == old(self).txview(),
            r is Ok && r->Ok_0 is None ==> t_queue::<ID>(old(self).txview()).len() == 0 && final(self).txview() == old(self).txview(),
            r is Ok && r->Ok_0 is Some ==> t_queue::<ID>(old(self).txview()).len() > 0 && r->Ok_0->0 == t_queue::<ID>(old(self).txview())[0]
                && final(self).txview() == t_pop(old(self).txview());
}
pub trait OperationStore<T, ID>: Db {
    type Error;
    fn get_operation(&mut self, id: &ID) -> (r: Result<Option<T>, Self::Error>)
        requires !old(self).in_tx(),
        ensures final(self).committed() == old(self).committed(), !final(self).in_tx(),
            r is Ok ==> r->Ok_0 == (if t_ops::<T, ID>(old(self).committed()).contains_key(*id) { Some(t_ops::<T, ID>(old(self).committed())[*id]) } else { None::<T> });
    fn get_operation_tx(&mut self, id: &ID) -> (r: Result<Option<T>, Self::Error>)
        requires old(self).in_tx(),
        ensures final(self).committed() == old(self).committed(), final(self).in_tx(), final(self).txview() == old(self).txview(),
            r is Ok ==> r->Ok_0 == (if t_ops::<T, ID>(old(self).txview()).contains_key(*id) { Some(t_ops::<T, ID>(old(self).txview())[*id]) } else { None::<T> });
}
