pub trait Conditions: Clone {}
pub trait Forge<C> {}
pub trait AuthResolver<C> {}
pub trait StoreShim<C> {}
#[derive(Clone, Copy, PartialEq, Eq, Hash, Structural)]
pub struct Hash(pub [u8; 32]);
#[derive(Clone, Copy, PartialEq, Eq, Hash, Structural)]
pub struct VerifyingKey(pub [u8; 32]);
pub type SpaceId = Hash;
pub type ActorId = VerifyingKey;
pub type MemberId = VerifyingKey;
pub type GroupId = ActorId;
pub type OperationId = Hash;
pub type GroupSecretId = [u8; 32];
pub type XAeadNonce = [u8; 24];
pub struct EncryptionDirectMessage { pub d: u8 }
pub struct Access<C> { pub g: Ghost<Option<C>> }
pub struct Event<C> { pub g: Ghost<Option<C>> }
pub struct EncryptionOutput { pub o: u8 }
pub struct AuthGroupError<C, RS> { pub g: Ghost<Option<(C, RS)>> }
pub struct EncryptionGroupError { pub e: u8 }
pub enum SpaceError<F, C, RS> { AuthGroup(AuthGroupError<C, RS>), EncryptionGroup(EncryptionGroupError), UnknownSpace(SpaceId), Other(Ghost<Option<F>>) }

// ---- the orderer's bookkeeping of processed space messages (assumed contracts, see unit.toml) -----------------------------
#[verifier::external_body]
pub struct EncryptionOrdererState { _p: () }
impl EncryptionOrdererState {
    pub uninterp spec fn seen(&self) -> Set<OperationId>;
    #[verifier::external_body]
    pub fn has_seen(&self, id: OperationId) -> (r: bool) ensures r == self.seen().contains(id) { unimplemented!() }
    #[verifier::external_body]
    pub fn add_dependency(&mut self, id: OperationId, dependencies: &[OperationId])
        ensures final(self).seen().contains(id), forall|x: OperationId| old(self).seen().contains(x) ==> #[trigger] final(self).seen().contains(x)
    { unimplemented!() }
}
pub struct EncryptionMembershipState { pub members: HashSet<ActorId> }
pub struct Dcgka { pub dgm: EncryptionMembershipState, pub rest: u8 }
pub struct EncryptionGroupState { pub orderer: EncryptionOrdererState, pub dcgka: Dcgka, pub rest: u8 }
#[verifier::external_body]
pub struct EncryptionMessage { _p: () }
impl EncryptionMessage {
    pub uninterp spec fn spec_id(&self) -> OperationId;
    #[verifier::external_body]
    pub fn id(&self) -> (r: OperationId) ensures r == self.spec_id() { unimplemented!() }
    #[verifier::external_body]
    pub fn from_application(space_message: &ApplicationMessage) -> (r: Self) ensures r.spec_id() == space_message.id { unimplemented!() }
    #[verifier::external_body]
    pub fn from_membership<C>(space_message: &SpaceMembershipMessage, my_id: ActorId, auth_message: &AuthMessage<C>, current_members: &Vec<ActorId>, next_members: &Vec<ActorId>) -> (r: Self)
        ensures r.spec_id() == space_message.id
    { unimplemented!() }
}
pub struct EncryptionGroup { _p: () }
impl EncryptionGroup {
    // p2panda-encryption's group `receive`: arbitrary result; reaches the orderer only through queue/set_welcome/next_ready_message
    #[verifier::external_body]
    pub fn receive(y: EncryptionGroupState, message: &EncryptionMessage) -> (r: Result<(EncryptionGroupState, Vec<EncryptionOutput>), EncryptionGroupError>)
        ensures r is Ok ==> (r->Ok_0).0.orderer.seen() == y.orderer.seen()
    { unimplemented!() }
}

// ---- auth side (opaque) -----------------------------------------------------------------------------------------------------
#[verifier::external_body]
#[verifier::reject_recursive_types(C)]
pub struct AuthMessage<C> { _p: core::marker::PhantomData<C> }
impl<C> AuthMessage<C> {
    pub uninterp spec fn spec_id(&self) -> OperationId;
    #[verifier::external_body]
    pub fn id(&self) -> (r: OperationId) ensures r == self.spec_id() { unimplemented!() }
}
#[verifier::reject_recursive_types(C)]
pub struct AuthInner<C> { pub operations: HashMap<OperationId, AuthMessage<C>> }
#[verifier::reject_recursive_types(C)]
pub struct AuthGroupState<C> { pub inner: AuthInner<C>, pub rest: u8 }
impl<C> AuthGroupState<C> {
    #[verifier::external_body]
    pub fn members(&self, group_id: GroupId) -> (r: Vec<(ActorId, Access<C>)>) { unimplemented!() }
}
pub struct AuthGroup { _p: () }
impl AuthGroup {
    #[verifier::external_body]
    pub fn process<C, RS>(y: AuthGroupState<C>, message: &AuthMessage<C>) -> (r: Result<AuthGroupState<C>, AuthGroupError<C, RS>>) { unimplemented!() }
}
#[verifier::external_body]
pub fn secret_members<C>(members: Vec<(ActorId, Access<C>)>) -> (r: Vec<ActorId>) { unimplemented!() }
#[verifier::external_body]
pub fn verif_sort(v: &mut Vec<ActorId>) { unimplemented!() }
#[verifier::external_body]
pub fn verif_vec_eq(a: &Vec<ActorId>, b: &Vec<ActorId>) -> (r: bool) ensures r == (a@ == b@) { unimplemented!() }
#[verifier::external_body]
pub fn verif_hashset_from_iter(v: Vec<ActorId>) -> (r: HashSet<ActorId>) ensures r@ == v@.to_set() { unimplemented!() }
#[verifier::external_body]
pub fn encryption_output_to_space_events<C>(space_id: &SpaceId, output: Vec<EncryptionOutput>) -> (r: Vec<Event<C>>) { unimplemented!() }
#[verifier::external_body]
pub fn space_message_to_space_event<C>(space_id: SpaceId, space_message: &SpaceMembershipMessage, auth_message: &AuthMessage<C>, current_members: Vec<ActorId>, next_members: Vec<ActorId>) -> (r: Event<C>) { unimplemented!() }

// ---- space state and its loading (contract-only) ---------------------------------------------------------------------------
#[verifier::reject_recursive_types(C)]
pub struct SpacesState<C> { pub space_id: SpaceId, pub group_id: VerifyingKey, pub groups_y: AuthGroupState<C>, pub encryption_y: EncryptionGroupState }
#[verifier::external_body]
#[verifier::reject_recursive_types(S)]
#[verifier::reject_recursive_types(F)]
#[verifier::reject_recursive_types(C)]
#[verifier::reject_recursive_types(RS)]
pub struct Manager<S, F, C, RS> { _p: core::marker::PhantomData<(S, F, C, RS)> }
impl<S, F, C, RS> Manager<S, F, C, RS> {
    #[verifier::external_body]
    pub fn clone(&self) -> (r: Self) ensures r == *self { unimplemented!() }
    #[verifier::external_body]
    pub fn id(&self) -> (r: ActorId) { unimplemented!() }
}
// the space state the store holds for (manager, space id) when a handler starts (a fresh one if none is stored)
pub uninterp spec fn loaded_state<S, F, C, RS>(m: Manager<S, F, C, RS>, id: SpaceId) -> SpacesState<C>;
impl<S, F, C, RS> Space<S, F, C, RS> where S: StoreShim<C>, F: Forge<C>, C: Conditions, RS: AuthResolver<C> {
    #[verifier::external_body]
    pub fn get_or_init_state(space_id: SpaceId, group_id: GroupId, manager_ref: Manager<S, F, C, RS>) -> (r: Result<SpacesState<C>, SpaceError<F, C, RS>>)
        ensures r is Ok ==> r->Ok_0 == loaded_state(manager_ref, space_id)
    { unimplemented!() }
    #[verifier::external_body]
    pub fn state(&self) -> (r: Result<SpacesState<C>, SpaceError<F, C, RS>>)
        ensures r is Ok ==> r->Ok_0 == loaded_state(self.manager, self.id)
    { unimplemented!() }
}
