// ---- plain-data shims --------------------------------------------------------------------------------------
pub type SeqNum = u32;
#[derive(Clone, Copy, PartialEq, Eq, Structural)]
pub struct Hash(pub [u8; 32]);
#[derive(Clone, Copy, PartialEq, Eq, Structural)]
pub struct VerifyingKey(pub [u8; 32]);
pub trait Extensions {}
pub trait LogId: Clone {}
pub struct Header<E> { pub verifying_key: VerifyingKey, pub seq_num: SeqNum, pub extensions: E }
pub struct Body { pub bytes: Vec<u8> }
pub struct Operation<E> { pub hash: Hash, pub header: Header<E>, pub body: Option<Body> }
pub struct PruneFlag(pub bool);
impl PruneFlag {
    pub fn is_set(&self) -> (r: bool) ensures r == self.0 { self.0 }
}
pub struct IngestArgs<L, TP> { pub log_id: L, pub topic: TP, pub prune_flag: bool }
pub enum IngestResult { Inserted, AlreadyExists }
pub enum IngestError { InvalidOperation, StoreError }
pub struct Notify { pub n: u8 }
impl Notify {
    #[verifier::external_body]
    pub fn notify_one(&self) { unimplemented!() }
}
// RefCell<VecDeque<..>> queue of finished items: contract-only (only push_back through borrow_mut is used)
pub struct RefCell<Q> { pub q: Q }
pub struct VecDeque<X> { pub items: Vec<X> }
pub struct PhantomData<X> { pub g: Ghost<Option<X>> }
impl<X> RefCell<VecDeque<X>> {
    #[verifier::external_body]
    pub fn borrow_mut(&self) -> (r: QueueGuard<X>) { unimplemented!() }
}
pub struct QueueGuard<X> { pub g: Ghost<Option<X>> }
impl<X> QueueGuard<X> {
    #[verifier::external_body]
    pub fn push_back(&mut self, x: X) { unimplemented!() }
}
#[verifier::external_body]
pub fn verif_opaque_string() -> String { unimplemented!() }

// L: LogId values are cloned into the arguments; clone returns an equal value
pub open spec fn lawful_clone<T: Clone>() -> bool {
    forall|a: T, b: T| #[trigger] call_ensures(T::clone, (&a,), b) ==> a == b
}

// ---- Borrow: Event borrows as its log-prune arguments (impl in event.rs: `&self.log_prune_args`) ----------------
#[verifier::external_trait_specification]
pub trait ExBorrow<Borrowed: ?Sized> {
    type ExternalTraitSpecificationFor: core::borrow::Borrow<Borrowed>;
    fn borrow(&self) -> (r: &Borrowed)
        ensures r == borrowed_ref::<Self, Borrowed>(self);
}
impl<L, E, TP> Borrow<LogPruneArgs<VerifyingKey, L, SeqNum>> for Event<L, E, TP> {
    #[verifier::external_body]
    fn borrow(&self) -> (r: &LogPruneArgs<VerifyingKey, L, SeqNum>) { &self.log_prune_args }
}
pub mod borrow_ax {
    use super::*;
    pub uninterp spec fn borrowed_ref<T: ?Sized, B: ?Sized>(x: &T) -> &B;
    pub broadcast axiom fn event_borrows_prune_args<L, E, TP>(e: &Event<L, E, TP>)
        ensures #[trigger] borrowed_ref::<Event<L, E, TP>, LogPruneArgs<VerifyingKey, L, SeqNum>>(e) == &e.log_prune_args;
}
pub use borrow_ax::*;
broadcast use event_borrows_prune_args;

// ---- contract-only log store: pruning needs an authorized prune point (ghost) ------------------------------------
pub trait LogStore<T, A, L, S, ID> {
    type Error;
    // prune points (author, log, seq) of operations that PASSED ingest with the prune flag set
    spec fn authorized(&self) -> Set<(A, L, S)>;
    // log of prune_entries calls made so far
    spec fn pruned(&self) -> Seq<(A, L, S)>;
    fn prune_entries(&mut self, author: &A, log_id: &L, until: &S) -> (r: Result<u64, Self::Error>)
        requires old(self).authorized().contains((*author, *log_id, *until)),
        ensures final(self).authorized() == old(self).authorized(),
                final(self).pruned() == old(self).pruned().push((*author, *log_id, *until));
}

// ---- specification ---------------------------------------------------------------------------------------------
// the prune arguments Event::new derives from an operation: its OWN author, log and sequence number
pub open spec fn args_for<L, E>(op: Operation<E>, log_id: L, flag: bool) -> LogPruneArgs<VerifyingKey, L, SeqNum> {
    if flag { LogPruneArgs::PruneEntriesUntil { author: op.header.verifying_key, log_id: log_id, seq_num: op.header.seq_num } } else { LogPruneArgs::Ignore }
}
// type invariant of Event (established by Event::new, only weakened to Ignore by ignore_log_prune)
pub open spec fn event_wf<L, E, TP>(e: Event<L, E, TP>) -> bool {
    e.log_prune_args == args_for(e.operation, e.ingest_args.log_id, e.ingest_args.prune_flag) || e.log_prune_args is Ignore
}
// the prune arguments are authorized by a successful ingest
pub open spec fn args_authorized<L>(args: LogPruneArgs<VerifyingKey, L, SeqNum>, auth: Set<(VerifyingKey, L, SeqNum)>) -> bool {
    args is PruneEntriesUntil ==> auth.contains((args->author, args->log_id, args->seq_num))
}
// postcondition of the ingest processor (assumed, see unit oplog): a successful event's own prune point is authorized
pub open spec fn ingest_post<L, E, TP>(result: Result<(Event<L, E, TP>, IngestResult), (Event<L, E, TP>, IngestError)>, auth: Set<(VerifyingKey, L, SeqNum)>) -> bool {
    match result {
        Ok((ev, _)) => event_wf(ev) && (ev.ingest_args.prune_flag ==> auth.contains((ev.operation.header.verifying_key, ev.ingest_args.log_id, ev.operation.header.seq_num))),
        Err((ev, _)) => event_wf(ev),   // nothing is authorized by a failed event
    }
}

// ---- call-site glue: the layering contract `ingest output -> closure #1 -> LogPrune::process` -------------------------
// (the only hand-written exec code of this unit; it contains no logic of its own)
//@ obligation name=pipeline_step props=C04
pub fn pipeline_step<S, L, E, TP>(lp: &mut LogPrune<S, Event<L, E, TP>, L, E>, result: Result<(Event<L, E, TP>, IngestResult), (Event<L, E, TP>, IngestError)>) -> (r: Result<(), (Event<L, E, TP>, LogPruneError)>)
    where S: LogStore<Operation<E>, VerifyingKey, L, SeqNum, Hash>, L: LogId, E: Extensions, TP: Clone,
    requires ingest_post(result, old(lp).store.authorized()),
    ensures
        // nothing is pruned for a failed ingest; at most the event's own prune point otherwise
        result is Err ==> final(lp).store.pruned() == old(lp).store.pruned(),
        result is Ok ==> (final(lp).store.pruned() == old(lp).store.pruned()
            || final(lp).store.pruned() == old(lp).store.pruned().push(((result->Ok_0).0.operation.header.verifying_key, (result->Ok_0).0.ingest_args.log_id, (result->Ok_0).0.operation.header.seq_num))),
{
    let event = ingest_result_to_event(result);
    lp.process(event)
}
