#[verifier::external_type_specification]
#[verifier::external_body]
pub struct ExInstant(std::time::Instant);

// ---- the clock ---------------------------------------------------------------------------------
pub uninterp spec fn spec_elapsed(i: Instant) -> Duration;
pub assume_specification [Instant::now] () -> (r: Instant);
pub assume_specification [Instant::elapsed] (i: &Instant) -> (r: Duration)
    ensures r == spec_elapsed(*i);

// ---- the random number generator (contract only) ----------------------------------------------
pub struct ChaCha20Rng { pub state: u64 }
impl ChaCha20Rng {
    #[verifier::external_body]
    pub fn random_range_u128(&mut self, range: core::ops::Range<u128>) -> (r: u128)
        requires range.start < range.end,
        ensures range.start <= r < range.end,
    { unimplemented!() }
}

// ---- configuration well-formedness and the invariant of the property ---------------------------
pub open spec fn cfg_wf(c: Config) -> bool {
    &&& dur_nanos(c.initial_value) <= dur_nanos(c.max_value)
    &&& dur_millis(c.min_increment) < dur_millis(c.max_increment)
    &&& dur_millis(c.min_reset) < dur_millis(c.max_reset)
    &&& dur_millis(c.max_increment) <= u64::MAX
    &&& dur_millis(c.max_reset) <= u64::MAX
    &&& dur_nanos(c.max_value) + dur_millis(c.max_increment) * 1_000_000 <= DUR_MAX_NANOS()
}

pub open spec fn within_bounds(b: Backoff) -> bool {
    dur_nanos(b.config.initial_value) <= dur_nanos(b.value) <= dur_nanos(b.config.max_value)
}
