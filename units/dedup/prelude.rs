// ---- contract-only VecDeque (assumed contract of the std dependency) ---------------------------
#[verifier::external_body]
#[verifier::reject_recursive_types(T)]
pub struct VecDeque<T> { inner: std::collections::VecDeque<T> }

impl<T> View for VecDeque<T> {
    type V = Seq<T>;
    uninterp spec fn view(&self) -> Seq<T>;
}

impl<T> VecDeque<T> {
    pub uninterp spec fn spec_capacity(&self) -> usize;

    #[verifier::external_body]
    pub fn with_capacity(n: usize) -> (r: Self)
        ensures r@ == Seq::<T>::empty(), r.spec_capacity() == n,
    { VecDeque { inner: std::collections::VecDeque::with_capacity(n) } }

    #[verifier::external_body]
    pub fn len(&self) -> (r: usize)
        ensures r == self@.len(), r <= self.spec_capacity(), r <= isize::MAX as usize,
    { self.inner.len() }

    #[verifier::external_body]
    pub fn capacity(&self) -> (r: usize)
        ensures r == self.spec_capacity(),
    { self.inner.capacity() }

    #[verifier::external_body]
    pub fn pop_front(&mut self) -> (r: Option<T>)
        ensures
            final(self).spec_capacity() == old(self).spec_capacity(),
            old(self)@.len() == 0 ==> r is None && final(self)@ == old(self)@,
            old(self)@.len() > 0 ==> r == Some(old(self)@[0]) && final(self)@ == old(self)@.skip(1),
    { self.inner.pop_front() }

    #[verifier::external_body]
    pub fn push_back(&mut self, value: T)
        ensures
            final(self)@ == old(self)@.push(value),
            old(self)@.len() < old(self).spec_capacity() ==> final(self).spec_capacity() == old(self).spec_capacity(),
            final(self).spec_capacity() >= old(self).spec_capacity(),
    { self.inner.push_back(value) }
}

// T::clone returns an equal value (type invariant of the input type).
pub open spec fn lawful_clone<T: Clone>() -> bool {
    forall|a: T, b: T| #[trigger] call_ensures(T::clone, (&a,), b) ==> a == b
}

// ---- abstract view and representation invariant -------------------------------------------------
impl<T> DeduplicationBuffer<T> {
    pub open spec fn view(&self) -> Seq<T> { self.buffer@ }
    pub open spec fn cap(&self) -> nat { self.buffer.spec_capacity() as nat }
    pub open spec fn wf(&self) -> bool {
        &&& self.set@ =~= self.buffer@.to_set()
        &&& self.buffer@.no_duplicates()
        &&& self.buffer@.len() <= self.cap()
        &&& self.cap() >= 1
    }
}

// The ring-buffer step of the specification, as a function of the abstract state.
pub open spec fn model_insert<T>(s: Seq<T>, cap: nat, x: T) -> Seq<T> {
    if s.contains(x) { s } else if s.len() >= cap { s.skip(1).push(x) } else { s.push(x) }
}
