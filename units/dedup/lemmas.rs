// Sequence/set facts used as state-independent hints (broadcast at function entry only).
pub broadcast proof fn lemma_empty_to_set<T>()
    ensures #[trigger] Seq::<T>::empty().to_set() == Set::<T>::empty()
{
    assert(Seq::<T>::empty().to_set() =~= Set::<T>::empty());
}

pub broadcast proof fn lemma_skip1<T>(s: Seq<T>)
    requires s.no_duplicates(), s.len() > 0,
    ensures
        #[trigger] s.skip(1).to_set() == s.to_set().remove(s[0]),
        s.skip(1).no_duplicates(),
        s.skip(1).len() == s.len() - 1,
{
    let t = s.skip(1);
    assert forall|x: T| t.to_set().contains(x) <==> s.to_set().remove(s[0]).contains(x) by {
        if t.contains(x) {
            let i = choose|i: int| 0 <= i < t.len() && t[i] == x;
            assert(s[i + 1] == x);
            assert(s.contains(x));
        }
        if s.contains(x) && x != s[0] {
            let i = choose|i: int| 0 <= i < s.len() && s[i] == x;
            assert(i > 0);
            assert(t[i - 1] == x);
        }
    }
    assert(t.to_set() =~= s.to_set().remove(s[0]));
}

pub broadcast proof fn lemma_push<T>(s: Seq<T>, x: T)
    ensures
        #[trigger] s.push(x).to_set() == s.to_set().insert(x),
        (s.no_duplicates() && !s.contains(x)) ==> s.push(x).no_duplicates(),
{
    let t = s.push(x);
    assert forall|y: T| t.to_set().contains(y) <==> s.to_set().insert(x).contains(y) by {
        if t.contains(y) {
            let i = choose|i: int| 0 <= i < t.len() && t[i] == y;
            if i < s.len() { assert(s[i] == y); }
        }
        if s.contains(y) {
            let i = choose|i: int| 0 <= i < s.len() && s[i] == y;
            assert(t[i] == y);
        }
        if y == x { assert(t[s.len() as int] == x); }
    }
    assert(t.to_set() =~= s.to_set().insert(x));
}

// ---- property-level corollary -------------------------------------------------------------------
// History of a buffer: fold model_insert over an insertion sequence.
pub open spec fn run<T>(cap: nat, xs: Seq<T>) -> Seq<T>
    decreases xs.len()
{
    if xs.len() == 0 { Seq::empty() } else { model_insert(run(cap, xs.drop_last()), cap, xs.last()) }
}

// Items accepted (reported "not a duplicate") along an insertion sequence, in order.
pub open spec fn accepted<T>(cap: nat, xs: Seq<T>) -> Seq<T>
    decreases xs.len()
{
    if xs.len() == 0 { Seq::empty() }
    else if run(cap, xs.drop_last()).contains(xs.last()) { accepted(cap, xs.drop_last()) }
    else { accepted(cap, xs.drop_last()).push(xs.last()) }
}

pub open spec fn last_n<T>(s: Seq<T>, n: nat) -> Seq<T> {
    if s.len() <= n { s } else { s.subrange(s.len() - n, s.len() as int) }
}

//@ obligation name=window props=C24
// "The buffer holds exactly the last `capacity` accepted items, never more than `capacity`",
// hence an item is reported as a duplicate exactly when it is among them.
pub proof fn lemma_window<T>(cap: nat, xs: Seq<T>)
    requires cap >= 1,
    ensures
        run(cap, xs) == last_n(accepted(cap, xs), cap),
        run(cap, xs).len() <= cap,
    decreases xs.len()
{
    if xs.len() == 0 {
        assert(last_n(Seq::<T>::empty(), cap) =~= Seq::<T>::empty());
    } else {
        let p = xs.drop_last();
        let x = xs.last();
        lemma_window(cap, p);
        let s = run(cap, p);
        let a = accepted(cap, p);
        if s.contains(x) {
        } else {
            let a2 = a.push(x);
            if s.len() >= cap {
                assert(s.len() == cap);
                // s == last cap of a, |a| >= cap
                assert(a.len() >= cap);
                assert(s.skip(1).push(x) =~= last_n(a2, cap));
            } else {
                // |a| < cap hence s == a
                if a.len() <= cap {
                    assert(s == a);
                    assert(s.push(x) =~= last_n(a2, cap));
                } else {
                    assert(s.len() == cap);
                }
            }
        }
    }
}
