pub trait Author: Clone + Ord {}
pub trait LogIdTrait: Clone + Ord {}
pub trait LogId: Clone + Ord {}
#[derive(Clone, Copy, PartialEq, Eq, PartialOrd, Ord, Structural)]
pub struct VerifyingKey(pub [u8; 32]);
impl Author for VerifyingKey {}
pub struct StoreErr { pub e: u8 }
pub enum LogSyncError { LogStore(String), Other }
#[verifier::external_body]
pub fn verif_opaque_string() -> String { unimplemented!() }
#[verifier::external_body]
pub fn verif_opaque_string_of<T>(args: T) -> String { unimplemented!() }
// the heights the store holds for the given logs of one author (None: none of them is stored)
pub trait HeightStore<L: LogIdTrait> {
    spec fn stored_heights(&self, author: VerifyingKey, logs: Seq<L>) -> Option<BTreeMap<L, SeqNum>>;
    fn get_log_heights(&self, author: &VerifyingKey, logs: &Vec<L>) -> (r: Result<Option<BTreeMap<L, SeqNum>>, StoreErr>)
        ensures r is Ok ==> r->Ok_0 == self.stored_heights(*author, logs@);
}
// what the `Have` message must carry: for every requested author with stored logs, exactly the stored heights
pub open spec fn is_local_heights<L: LogIdTrait, S: HeightStore<L>>(store: &S, logs: Map<VerifyingKey, Vec<L>>, r: Map<VerifyingKey, BTreeMap<L, SeqNum>>) -> bool {
    &&& forall|a: VerifyingKey| #[trigger] r.contains_key(a) <==> logs.contains_key(a) && store.stored_heights(a, logs[a]@) is Some
    &&& forall|a: VerifyingKey| #[trigger] r.contains_key(a) ==> Some(r[a]) == store.stored_heights(a, logs[a]@)
}
pub open spec fn so_far<L: LogIdTrait, S: HeightStore<L>>(store: &S, logs: Map<VerifyingKey, Vec<L>>, h: Seq<(&VerifyingKey, &Vec<L>)>, r: Map<VerifyingKey, BTreeMap<L, SeqNum>>) -> bool {
    &&& forall|a: VerifyingKey| #[trigger] r.contains_key(a) <==> visited(h, a) && store.stored_heights(a, logs[a]@) is Some
    &&& forall|a: VerifyingKey| #[trigger] r.contains_key(a) ==> Some(r[a]) == store.stored_heights(a, logs[a]@)
}
