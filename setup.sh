#!/bin/sh
# Build the replay binaries once (offline). Proof steps need no build.
set -e
cd "$(dirname "$0")"
export CARGO_NET_OFFLINE=true CARGO_TARGET_DIR="$PWD/.cache/target" RUSTFLAGS="--cfg p2panda_p2panda_verif"
for c in replay/*/Cargo.toml; do
  d=$(dirname "$c")
  cp /repo/Cargo.lock "$d/Cargo.lock" 2>/dev/null || true
  cargo build --offline --release -q --manifest-path "$c" || echo "setup: build of $d failed (replays for its properties will report no-failing-input-found)"
done
verus --version >/dev/null
