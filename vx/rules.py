"""Global rewrite rules R1..R14 (DESIGN.md §2.2).  Each rule is a function
text -> (text, count).  Rules are purely syntactic and apply to every extracted
item of a unit that enables them."""
import re
from . import rustlex as L

KEEP_DERIVES = {"Copy", "Clone", "PartialEq", "Eq", "Default", "Structural"}


def r1_strip_attrs_comments(text, keep_derives=KEEP_DERIVES):
    """R1: delete comments and attributes. `#[derive(..)]` is kept restricted to
    KEEP_DERIVES (Verus understands those and gives them structural specs)."""
    m = L.mask(text)
    out = []
    i, n = 0, len(text)
    cnt = 0
    while i < n:
        if text[i] == "/" and i + 1 < n and text[i + 1] in "/*" and m[i] == " ":
            # comment: masked region; skip until mask resumes
            if text[i + 1] == "/":
                j = text.find("\n", i)
                j = n if j < 0 else j
            else:
                depth, j = 1, i + 2
                while j < n and depth > 0:
                    if text.startswith("/*", j):
                        depth += 1; j += 2
                    elif text.startswith("*/", j):
                        depth -= 1; j += 2
                    else:
                        j += 1
            cnt += 1
            i = j
            continue
        if m[i] == "#" and i + 1 < n and (m[i + 1] == "[" or (m[i + 1] == "!" and m[i + 2] == "[")):
            b = i + 1 if m[i + 1] == "[" else i + 2
            e = L.match_close(m, b)
            inner = text[b + 1:e]
            dm = re.match(r"\s*derive\s*\((.*)\)\s*$", inner, re.S)
            if dm:
                ds = [d.strip() for d in dm.group(1).split(",") if d.strip()]
                keep = [d for d in ds if d.split("::")[-1] in keep_derives]
                if keep:
                    out.append("#[derive(%s)]" % ", ".join(keep))
            cnt += 1
            i = e + 1
            continue
        out.append(text[i])
        i += 1
    res = "".join(out)
    res = re.sub(r"\n[ \t]*\n([ \t]*\n)+", "\n\n", res)
    return res, cnt


def r2_let_chains(text):
    """R2: `if let P = E && C { B }` without else -> `if let P = E { if C { B } }`."""
    cnt = 0
    while True:
        m = L.mask(text)
        found = False
        for k in re.finditer(r"\bif\s+let\b", m):
            # scan condition to the block '{'
            i = k.end()
            amp = None
            j = i
            while j < len(m):
                c = m[j]
                if c in "([":
                    j = L.match_close(m, j)
                elif c == "{":
                    break
                elif m.startswith("&&", j) and amp is None:
                    amp = j
                j += 1
            if amp is None:
                continue
            bo = j
            bc = L.match_close(m, bo)
            after = L.skip_ws(m, bc + 1)
            if m.startswith("else", after):
                continue  # not handled: unsupported
            cond1 = text[k.start():amp].rstrip()
            cond2 = text[amp + 2:bo].strip()
            body = text[bo:bc + 1]
            text = text[:k.start()] + cond1 + " { if " + cond2 + " " + body + " }" + text[bc + 1:]
            cnt += 1
            found = True
            break
        if not found:
            break
    # second form: `if C && let P = E { B }` without else -> `if C { if let P = E { B } }` (C is evaluated first, as before)
    while True:
        m = L.mask(text)
        found = False
        for k in re.finditer(r"\bif\b(?!\s+let\b)", m):
            i = k.end()
            j = i
            amp = None
            while j < len(m):
                c = m[j]
                if c in "([":
                    j = L.match_close(m, j)
                elif c == "{":
                    break
                elif c == ";":
                    break
                elif m.startswith("&&", j) and re.match(r"&&\s*let\b", m[j:]):
                    amp = j
                    break
                j += 1
            if amp is None:
                continue
            # block `{` after the let-condition
            j = amp
            while j < len(m) and m[j] != "{":
                if m[j] in "([":
                    j = L.match_close(m, j)
                j += 1
            bo = j
            bc = L.match_close(m, bo)
            after = L.skip_ws(m, bc + 1)
            if m.startswith("else", after):
                continue
            cond1 = text[k.end():amp].strip()
            cond2 = re.sub(r"^&&\s*", "", text[amp:bo].strip())
            body = text[bo:bc + 1]
            text = text[:k.start()] + "if " + cond1 + " { if " + cond2 + " " + body + " }" + text[bc + 1:]
            cnt += 1
            found = True
            break
        if not found:
            return text, cnt


LOG_MACROS = ("trace", "debug", "info", "warn", "error")


def r5_drop_logging(text):
    """R5: delete `trace!/debug!/info!/warn!/error!(..);` statements."""
    cnt = 0
    while True:
        m = L.mask(text)
        k = re.search(r"(?<![A-Za-z0-9_:])(?:tracing::)?(%s)!\s*\(" % "|".join(LOG_MACROS), m)
        if not k:
            return text, cnt
        po = m.index("(", k.start())
        pc = L.match_close(m, po)
        e = L.skip_ws(m, pc + 1)
        if e < len(m) and m[e] == ";":
            e += 1
            text = text[:k.start()] + text[e:]
        else:
            # expression position (e.g. match arm): replace with unit
            text = text[:k.start()] + "()" + text[pc + 1:]
        cnt += 1


def r6_ready_macro(text):
    """R6: `ready!(E)` -> match E { Poll::Ready(t) => t, Poll::Pending => return Poll::Pending }"""
    cnt = 0
    while True:
        m = L.mask(text)
        k = re.search(r"(?<![A-Za-z0-9_])ready!\s*\(", m)
        if not k:
            return text, cnt
        po = m.index("(", k.start())
        pc = L.match_close(m, po)
        inner = text[po + 1:pc]
        text = (text[:k.start()] + "(match " + inner +
                " { Poll::Ready(t__) => t__, Poll::Pending => return Poll::Pending })" + text[pc + 1:])
        cnt += 1


def _split_top_commas(mtext, text):
    parts, last, j = [], 0, 0
    while j < len(mtext):
        c = mtext[j]
        if c in "([{":
            j = L.match_close(mtext, j)
        elif c == ",":
            parts.append(text[last:j]); last = j + 1
        j += 1
    parts.append(text[last:])
    return parts


def r4_opaque_format(text):
    """R4: error-message / SQL-text strings are opaque: `format!(FMT, a, b)` -> `verif_opaque_string_of((a, b))`
    (the argument expressions are KEPT and evaluated, so a panic or overflow inside them is still an obligation);
    `format!(FMT)` and `x.to_string()` for an identifier, path or string literal x -> `verif_opaque_string()`."""
    cnt = 0
    text, n0 = re.subn(r"\b(err|error|e)\.to_string\(\)", "verif_opaque_string()", text)
    cnt += n0
    while True:
        m = L.mask(text)
        k = re.search(r"(?<![A-Za-z0-9_])format!\s*\(", m)
        if not k:
            break
        po = m.index("(", k.start())
        pc = L.match_close(m, po)
        parts = _split_top_commas(m[po + 1:pc], text[po + 1:pc])
        args = []
        for a in parts[1:]:
            a = a.strip()
            if not a:
                continue
            a = re.sub(r"^[A-Za-z_][A-Za-z0-9_]*\s*=\s*(?!=)", "", a)   # named argument `name = expr`
            args.append(a)
        if args:
            rep = "verif_opaque_string_of((%s,))" % ", ".join(args)
        else:
            rep = "verif_opaque_string()"
        text = text[:k.start()] + rep + text[pc + 1:]
        cnt += 1
    # "literal".to_string()  /  ident.to_string()
    while True:
        m = L.mask(text)
        k = re.search(r'("\s*"|\b[a-z_][A-Za-z0-9_]*)\s*\.\s*to_string\s*\(\s*\)', m)
        if not k:
            break
        st = k.start()
        if m[st] == '"':
            # string literal: find its opening quote (mask blanks the content)
            j = st
            # k matched `" "`-like masked literal start..end; use as is
        text = text[:st] + "verif_opaque_string()" + text[k.end():]
        cnt += 1
    return text, cnt


def r3_tuple_closure_params(text):
    """R3: `|(a, b)| body` -> `|p__| { let (a, b) = p__; body }`;  `|_| body` -> `|_p__| body`
    (Verus rejects tuple patterns and `_` as closure parameters)."""
    cnt = 0
    text, n0 = re.subn(r"\|\s*_\s*\|", "|_p__|", text)
    cnt += n0
    while True:
        m = L.mask(text)
        done = True
        for c in L.find_closures(m, 0, len(m)):
            b0, b1 = c["bars"]
            params = text[b0 + 1:b1 - 1].strip()
            if params.startswith("(") and L.match_close(m, m.index("(", b0)) == b1 - 2 - (len(text[b0+1:b1-1]) - len(text[b0+1:b1-1].rstrip())):
                pat = params
                bs, be = c["body"]
                body = text[bs:be]
                new = "|p__| { let %s = p__; %s }" % (pat, body)
                text = text[:b0] + new + text[be:]
                cnt += 1
                done = False
                break
        if done:
            return text, cnt


def r10_pin_self(text):
    """R10: `mut self: Pin<&mut Self>` / `self: Pin<&mut Self>` -> `&mut self`."""
    new, n = re.subn(r"(mut\s+)?self\s*:\s*(std::pin::)?Pin\s*<\s*&\s*mut\s+Self\s*>", "&mut self", text)
    return new, n


def r12_pub_fields(text):
    """R12: visibility erasure. `pub(crate)`/`pub(super)`/`pub(in ..)` -> `pub`; private
    struct fields -> pub (named and tuple structs)."""
    cnt = 0
    text, n = re.subn(r"\bpub\s*\(\s*(crate|super|self|in [^)]*)\s*\)", "pub", text)
    cnt += n
    # private struct/enum/const/type declarations become pub as well
    text, n = re.subn(r"^(\s*(?:#\[[^\]]*\]\s*)*)(struct|enum|const|type)\b", r"\1pub \2", text, count=1)
    cnt += n
    m = L.mask(text)
    k = re.search(r"\bstruct\s+\w+", m)
    if k and not re.search(r"\benum\b", m[:k.start()]):
        # find body
        i = k.end()
        while i < len(m) and m[i] not in "({;":
            if m[i] == "<":
                i = L.match_angle(m, i)
            i += 1
        if i < len(m) and m[i] in "({":
            e = L.match_close(m, i)
            inner = text[i + 1:e]
            im = m[i + 1:e]
            # split on top-level commas
            parts = []
            depth = 0
            last = 0
            j = 0
            while j < len(im):
                c = im[j]
                if c in "([{":
                    j = L.match_close(im, j)
                elif c == "<":
                    try:
                        j = L.match_angle(im, j)
                    except L.LexError:
                        pass
                elif c == ",":
                    parts.append(inner[last:j])
                    last = j + 1
                j += 1
            parts.append(inner[last:])
            newparts = []
            for p in parts:
                s = p.strip()
                if not s:
                    newparts.append(p)
                    continue
                # skip leading attributes
                lead = re.match(r"(\s*(#\[[^\]]*\]\s*)*)", p)
                head, rest = p[:lead.end()], p[lead.end():]
                if not re.match(r"pub\b", rest.lstrip()):
                    rest = re.sub(r"^(\s*)", r"\1pub ", rest, count=1)
                    cnt += 1
                newparts.append(head + rest)
            text = text[:i + 1] + ",".join(newparts) + text[e:]
    return text, cnt


def r11_map_ref_iter(text, exprs):
    """R11: `for PAT in &EXPR` / `for PAT in EXPR` (EXPR declared a map reference in unit.toml)
    -> `.iter()`.  exprs: list of exact expression strings."""
    cnt = 0
    for e in exprs:
        pat = r"(\bfor\s+[^;{}]*?\bin\s+)%s(\s*\{)" % re.escape(e)
        base = e[1:].strip() if e.startswith("&") else e
        text, n = re.subn(pat, lambda mm: mm.group(1) + base + ".iter()" + mm.group(2), text)
        cnt += n
    return text, cnt


AWAIT_MARK = "/*@await*/"


def r9_await_erasure(text, callee_patterns, mark=False):
    """R9: erase `.await` after calls whose callee matches one of callee_patterns
    (regexes on the text preceding `.await`, typically shim-trait method names);
    with pattern '*' erase all `.await`.  With mark=True (R9c) every erased await leaves the comment marker
    AWAIT_MARK behind, so that cancellation-point obligations can be spliced at the await points by ordinal."""
    cnt = 0
    if "*" in callee_patterns:
        m = L.mask(text)
        out = []
        last = 0
        for k in re.finditer(r"\s*\.\s*await\b", m):
            out.append(text[last:k.start()])
            if mark:
                out.append(AWAIT_MARK)
            last = k.end()
            cnt += 1
        out.append(text[last:])
        return "".join(out), cnt
    return text, cnt


def r9_async_fn_erasure(text):
    """R9 (trait-call form): `async fn` -> `fn` for functions whose awaits were all erased."""
    new, n = re.subn(r"\basync\s+fn\b", "fn", text)
    return new, n


def r15_static_to_const(text):
    """R15: `static NAME: T = V;` (immutable, no interior mutability: scalar types only) -> `const NAME: T = V;`.
    Reading an immutable scalar static and reading a const of the same value are indistinguishable."""
    new, n = re.subn(r"^(\s*(?:pub(?:\([^)]*\))?\s+)?)static\s+(?!mut\b)([A-Z_0-9]+\s*:\s*(?:usize|u8|u16|u32|u64|u128|isize|i8|i16|i32|i64|i128|bool|char)\s*=)",
                     r"\1const \2", text, flags=re.M)
    return new, n


def r16_split_iter_map_collect(text):
    """R16: the iterator adapter chain `RECV.iter().map(CLOSURE).collect()` is replaced by a call of the
    contract-only prelude helper `verif_iter_map_collect(RECV, CLOSURE)` (assumed contract: the collection
    built from CLOSURE applied to every entry of RECV).  The closure text is untouched and is verified
    against its spliced `ensures`.  (vstd's `Iterator::map` specification is unusable for generic item types.)"""
    cnt = 0
    while True:
        m = L.mask(text)
        found = False
        for r in re.finditer(r"([A-Za-z_][A-Za-z0-9_]*(?:\s*\.\s*[A-Za-z_][A-Za-z0-9_]*)*?)\s*\.\s*iter\s*\(\s*\)\s*\.\s*map\s*\(", m):
            po = r.end() - 1
            pc = L.match_close(m, po)
            t = re.match(r"\s*\.\s*collect\s*(::<[^;]*?>)?\s*\(\s*\)", m[pc + 1:])
            if not t:
                continue
            end = pc + 1 + t.end()
            recv = " ".join(text[r.start(1):r.end(1)].split())
            clos = text[po + 1:pc]
            text = text[:r.start()] + "verif_iter_map_collect(" + recv + ", " + clos.strip() + ")" + text[end:]
            cnt += 1
            found = True
            break
        if not found:
            return text, cnt


def _split_stmts(text, m, lo, hi):
    """Top-level statements of the block interior text[lo:hi]; returns list of (start, end) spans."""
    res = []
    i = lo
    while True:
        i = L.skip_ws(m, i)
        if i >= hi:
            break
        st = i
        kw = re.match(r"(if|for|while|loop|match|unsafe)\b", m[i:hi])
        if m[i] == "{" or kw:
            # block-like statement: up to the end of its (last chained) block
            j = i
            while True:
                while j < hi and m[j] != "{":
                    if m[j] in "([":
                        j = L.match_close(m, j)
                    j += 1
                j = L.match_close(m, j) + 1
                k = L.skip_ws(m, j)
                if m.startswith("else", k) and not (m[k + 4].isalnum() or m[k + 4] == "_"):
                    j = k + 4
                    continue
                break
            k = L.skip_ws(m, j)
            if k < hi and m[k] == ";":
                j = k + 1
            elif k < hi and m[k] == ".":
                # expression continues (e.g. `match x {..}.foo()`): treat as expression statement
                while j < hi and m[j] != ";":
                    if m[j] in "([{":
                        j = L.match_close(m, j)
                    j += 1
                j = min(j + 1, hi)
            res.append((st, j))
            i = j
        else:
            j = i
            while j < hi and m[j] != ";":
                if m[j] in "([{":
                    j = L.match_close(m, j)
                j += 1
            j = min(j + 1, hi)
            res.append((st, j))
            i = j
    return res


def _guard_continue(text, m, st, en):
    """If statement text[st:en] is `let P = E else { S continue; };` or `if C { S continue; }` (no else),
    return (kind, head, stmts_without_continue)."""
    seg_m = m[st:en]
    if re.match(r"let\b", seg_m):
        # find ` else {` at depth 0
        j = st
        els = None
        while j < en:
            if m[j] in "([{":
                j = L.match_close(m, j)
            elif m.startswith("else", j) and not (m[j - 1].isalnum() or m[j - 1] == "_") and L.skip_ws(m, j + 4) < en and m[L.skip_ws(m, j + 4)] == "{":
                els = j
                break
            j += 1
        if els is None:
            return None
        bo = L.skip_ws(m, els + 4)
        bc = L.match_close(m, bo)
        inner = text[bo + 1:bc]
        im = m[bo + 1:bc]
        k = re.search(r"\bcontinue\s*;\s*$", im)
        if not k:
            return None
        if re.search(r"\bcontinue\b", im[:k.start()]):
            return None
        return ("letelse", text[st:els].rstrip(), inner[:k.start()].rstrip())
    if re.match(r"if\b", seg_m):
        j = st
        while m[j] != "{":
            if m[j] in "([":
                j = L.match_close(m, j)
            j += 1
        bc = L.match_close(m, j)
        rest = m[bc + 1:en].strip()
        if rest.startswith("else"):
            return None
        inner = text[j + 1:bc]
        im = m[j + 1:bc]
        k = re.search(r"\bcontinue\s*;\s*$", im)
        if not k or re.search(r"\bcontinue\b", im[:k.start()]):
            return None
        return ("if", text[st:j].rstrip(), inner[:k.start()].rstrip())
    return None


def _elim_block(interior):
    """interior: text between the braces of a block that is in loop-tail position."""
    m = L.mask(interior)
    stmts = _split_stmts(interior, m, 0, len(interior))
    for (st, en) in stmts:
        g = _guard_continue(interior, m, st, en)
        if g is None:
            continue
        kind, head, inner = g
        rest, n = _elim_block(interior[en:])
        if kind == "letelse":
            new = "if " + head + " {" + rest.rstrip() + "\n} else {" + inner + "\n}"
        else:
            new = head + " {" + inner + "\n} else {" + rest.rstrip() + "\n}"
        return interior[:st] + new + "\n", n + 1
    return interior, 0


def r17_continue_elimination(text):
    """R17: inside a `for` body, a guard that ends in `continue;`
         `let P = E else { S; continue; }; REST`  ->  `if let P = E { REST } else { S }`
         `if C { S; continue; } REST`             ->  `if C { S } else { REST }`
    applied from the top of the loop body downwards (REST is in tail position again).
    (Verus does not support `continue` in for-loops; the forms are equivalent because `continue`
    is the last statement of a guard block whose remainder is the rest of the loop body.)"""
    cnt = 0
    while True:
        m = L.mask(text)
        changed = False
        for (kw_pos, kw, bo) in L.find_loops(m, 0, len(m)):
            if kw != "for":
                continue
            bc = L.match_close(m, bo)
            new, n = _elim_block(text[bo + 1:bc])
            if n:
                text = text[:bo + 1] + new + text[bc:]
                cnt += n
                changed = True
                break
        if not changed:
            return text, cnt


def _tail_continue_block(interior):
    """R17b helper. interior: text between the braces of a block in loop-tail position. Removes a `continue` that is the
    last thing executed on its path (last statement of the block; recursively through the arms of a trailing `match`
    and the branches of a trailing `if`/`else` chain or nested block). Returns (text, count)."""
    m = L.mask(interior)
    stmts = _split_stmts(interior, m, 0, len(interior))
    if not stmts:
        return interior, 0
    st, en = stmts[-1]
    if m[en:].strip():
        return interior, 0
    new, n = _tail_continue_expr(interior[st:en])
    return interior[:st] + new + interior[en:], n


def _tail_continue_expr(seg):
    m = L.mask(seg)
    body = m.strip()
    lead = len(m) - len(m.lstrip())
    if re.fullmatch(r"continue\s*;?", body):
        return seg[:lead] + "{}" + (seg[lead + len(body):]), 1
    if body.startswith("{"):
        bo = lead
        bc = L.match_close(m, bo)
        if m[bc + 1:].strip() in ("", ";"):
            inner, n = _tail_continue_block(seg[bo + 1:bc])
            return seg[:bo + 1] + inner + seg[bc:], n
        return seg, 0
    if re.match(r"if\b", body):
        # branches of the if / else-if / else chain
        out, n, i = seg, 0, lead
        spans = []
        j = i
        while True:
            while j < len(m) and m[j] != "{":
                if m[j] in "([":
                    j = L.match_close(m, j)
                j += 1
            if j >= len(m):
                return seg, 0
            bc = L.match_close(m, j)
            spans.append((j, bc))
            k = L.skip_ws(m, bc + 1)
            if m.startswith("else", k) and not (m[k + 4:k + 5].isalnum() or m[k + 4:k + 5] == "_"):
                j = k + 4
                continue
            if m[bc + 1:].strip() not in ("", ";"):
                return seg, 0
            break
        for (bo, bc) in reversed(spans):
            inner, k = _tail_continue_block(out[bo + 1:bc])
            out = out[:bo + 1] + inner + out[bc:]
            n += k
        return out, n
    if re.match(r"match\b", body):
        j = lead
        while j < len(m) and m[j] != "{":
            if m[j] in "([":
                j = L.match_close(m, j)
            j += 1
        if j >= len(m):
            return seg, 0
        bo, bc = j, L.match_close(m, j)
        if m[bc + 1:].strip() not in ("", ";"):
            return seg, 0
        # arms: PATTERN => BODY[,]
        arms = []
        i = bo + 1
        while True:
            k = i
            arrow = None
            while k < bc:
                if m[k] in "([{":
                    k = L.match_close(m, k)
                elif m.startswith("=>", k):
                    arrow = k
                    break
                k += 1
            if arrow is None:
                break
            b0 = L.skip_ws(m, arrow + 2)
            if m[b0] == "{":
                b1 = L.match_close(m, b0) + 1
                # a block arm may still continue as an expression (`{..}.x()`): then it ends at the comma
                k2 = L.skip_ws(m, b1)
                if k2 < bc and m[k2] not in ",":
                    # next arm starts without comma, or expression continues; find out by looking for `=>` before a `,`
                    pass
                e = b1
            else:
                e = b0
                while e < bc and m[e] != ",":
                    if m[e] in "([{":
                        e = L.match_close(m, e)
                    e += 1
            arms.append((b0, e))
            i = e
            k2 = L.skip_ws(m, i)
            if k2 < bc and m[k2] == ",":
                i = k2 + 1
        out, n = seg, 0
        for (b0, e) in reversed(arms):
            new, k = _tail_continue_expr(out[b0:e])
            out = out[:b0] + new + out[e:]
            n += k
        return out, n
    return seg, 0


def r17b_tail_continue(text):
    """R17b: inside a `for` body, a `continue` that is the last thing executed on its path through the body (last
    statement of the body, possibly inside the arms of a trailing `match` or the branches of a trailing `if`) is replaced
    by `{}`: falling off the end of the body is what `continue` does there. (Verus: no `continue` in for-loops.)"""
    cnt = 0
    done = set()
    while True:
        m = L.mask(text)
        changed = False
        for (kw_pos, kw, bo) in L.find_loops(m, 0, len(m)):
            if kw != "for" or kw_pos in done:
                continue
            bc = L.match_close(m, bo)
            new, n = _tail_continue_block(text[bo + 1:bc])
            done.add(kw_pos)
            if n:
                text = text[:bo + 1] + new + text[bc:]
                cnt += n
                changed = True
                break
        if not changed:
            return text, cnt


def r18_question_mark(text):
    """R18: a statement-final `?` is desugared per the Rust reference:
         `EXPR?;`            -> `match EXPR { Ok(_) => {}, Err(e__) => return Err(From::from(e__)) };`
         `let P = EXPR?;`    -> `let P = match EXPR { Ok(v__) => v__, Err(e__) => return Err(From::from(e__)) };`
    (Verus does not apply the `From` specification at `?`, so the error variant produced by the
    conversion would otherwise be unknown.)"""
    cnt = 0
    while True:
        m = L.mask(text)
        found = False
        for k in re.finditer(r"\?\s*;", m):
            q = k.start()
            st = L.item_start(m, q)
            st = L.skip_ws(m, st)
            seg = m[st:q]
            # the `?` must be at depth 0 of the statement
            depth_ok = True
            j = st
            while j < q:
                if m[j] in "([{":
                    e = L.match_close(m, j)
                    if e >= q:
                        depth_ok = False
                        break
                    j = e
                j += 1
            if not depth_ok:
                continue
            lm = re.match(r"let\s+(.+?)\s*=\s*", seg, re.S)
            if lm and "=" not in seg[:lm.start(1)]:
                # find the first top-level '=' (pattern may contain type ascription)
                eq = None
                j = st + 3
                while j < q:
                    if m[j] in "([{":
                        j = L.match_close(m, j)
                    elif m[j] == "<":
                        try:
                            j = L.match_angle(m, j)
                        except L.LexError:
                            pass
                    elif m[j] == "=" and m[j + 1] != "=" and m[j - 1] not in "=!<>":
                        eq = j
                        break
                    j += 1
                if eq is None:
                    continue
                head = text[st:eq + 1]
                expr = text[eq + 1:q].strip()
                new = head + " match " + expr + " { Ok(v__) => v__, Err(e__) => return Err(From::from(e__)) };"
            elif re.match(r"(return|break|continue)\b", seg):
                continue
            else:
                expr = text[st:q].strip()
                new = "match " + expr + " { Ok(_) => {}, Err(e__) => return Err(From::from(e__)) };"
            text = text[:st] + new + text[k.end():]
            cnt += 1
            found = True
            break
        if not found:
            return text, cnt


def r20_mut_self(text):
    """R20: `fn f(mut self, ..) { BODY }` -> `fn f(self, ..) { let mut self__ = self; BODY[self := self__] }`
    (Verus does not support `mut self` parameters; this is an alpha-renaming of the by-value receiver)."""
    try:
        fp = L.FnParts(text)
    except L.LexError:
        return text, 0
    m = fp.m
    params = m[fp.params_open:fp.params_close + 1]
    k = re.match(r"\(\s*mut\s+self\b", params)
    if not k or m[fp.body_open] != "{":
        return text, 0
    body = text[fp.body_open + 1:fp.body_close]
    bm = m[fp.body_open + 1:fp.body_close]
    out = []
    last = 0
    for w in re.finditer(r"(?<![A-Za-z0-9_])self(?![A-Za-z0-9_])", bm):
        out.append(body[last:w.start()])
        out.append("self__")
        last = w.end()
    out.append(body[last:])
    head = text[:fp.params_open] + re.sub(r"\(\s*mut\s+self\b", "(self", text[fp.params_open:fp.params_close + 1], count=1) + text[fp.params_close + 1:fp.body_open + 1]
    return head + "\n        let mut self__ = self;" + "".join(out) + text[fp.body_close:], 1


def r18b_hoist_question_mark(text):
    """R18b: a `?` nested in a statement, `PREFIX EXPR? SUFFIX;`, where PREFIX evaluates nothing (it contains no
    completed call: only `let`, paths, field places, `=` and the opening of enclosing calls) is hoisted:
         `let q__N = match EXPR { Ok(v__) => v__, Err(e__) => return Err(From::from(e__)) }; PREFIX q__N SUFFIX;`
    Evaluation order is unchanged because nothing in PREFIX is evaluated before EXPR."""
    cnt = 0
    while True:
        m = L.mask(text)
        found = False
        for k in re.finditer(r"\?", m):
            q = k.start()
            # skip `?Sized` and statement-final `?` (R18 handles those)
            if re.match(r"\?\s*;", m[q:]) or re.match(r"\?Sized", m[q:]):
                continue
            # EXPR: maximal postfix expression ending at q
            j = q - 1
            while j >= 0:
                c = m[j]
                if c in ")]":
                    depth = 0
                    while j >= 0:
                        if m[j] in ")]}":
                            depth += 1
                        elif m[j] in "([{":
                            depth -= 1
                            if depth == 0:
                                break
                        j -= 1
                    j -= 1
                elif c.isalnum() or c in "_.:":
                    j -= 1
                elif c == ">" and m[j - 1] == ":" :
                    j -= 1
                else:
                    break
            es = j + 1
            if es >= q:
                continue
            # statement start: scan back from EXPR, skipping balanced groups; unmatched openers belong to PREFIX
            j = es - 1
            while j >= 0:
                c = m[j]
                if c in ")]":
                    depth = 0
                    while j >= 0:
                        if m[j] in ")]}":
                            depth += 1
                        elif m[j] in "([{":
                            depth -= 1
                            if depth == 0:
                                break
                        j -= 1
                elif c in ";{}":
                    break
                j -= 1
            if j >= 0 and m[j] == "{" and re.match(r"\{\s*[A-Za-z_]\w*\s*(:(?!:)|,|\})", m[j:]) and re.search(r"[A-Za-z0-9_>]\s*$", m[:j]):
                # the enclosing brace is a struct literal (`Path { field: EXPR?, .. }`), not a block: a `let` cannot be hoisted
                # into it; the `?` stays as it is (Verus handles `?` natively)
                continue
            st = L.skip_ws(m, j + 1)
            prefix = m[st:es]
            # PREFIX must not contain a completed call / closing bracket
            if re.search(r"[)\]}]", prefix) or re.search(r"\b(if|match|while|for|return)\b", prefix):
                continue
            # a match-arm value (`PATTERN => EXPR?,`) is not a statement: a `let` cannot be hoisted in front of it
            if "=>" in prefix:
                continue
            # statement end
            e = q
            while e < len(m) and m[e] != ";":
                if m[e] in "([{":
                    e = L.match_close(m, e)
                elif m[e] in ")]}":
                    pass
                e += 1
            if e >= len(m):
                continue
            cnt += 1
            name = "q__%d" % cnt
            expr = text[es:q]
            new = ("let %s = match %s { Ok(v__) => v__, Err(e__) => return Err(From::from(e__)) };\n        " % (name, expr)
                   + text[st:es] + name + text[q + 1:e + 1])
            text = text[:st] + new + text[e + 1:]
            found = True
            break
        if not found:
            return text, cnt


def r7_expand_repo_macros(text, macro_file, names=("tx",)):
    """R7: invocations `NAME!(ARG1, ARG2)` of the repository's own `macro_rules!` macros (p2panda-store/src/macros.rs) are
    expanded textually with the macro body READ FROM THE REPOSITORY AT RUN TIME: the single arm
    `($a:expr, $b:expr) => {{ BODY }};` is instantiated with the argument texts.  `use $crate::...;` lines of the body
    (trait imports) are dropped.  A macro definition that no longer has this shape raises LostAnchor."""
    from .extract import LostAnchor
    cnt = 0
    try:
        msrc = open(macro_file).read()
    except OSError as e:
        raise LostAnchor("R7: cannot read %s: %s" % (macro_file, e))
    mm = L.mask(msrc)
    for name in names:
        if not re.search(r"\b%s\s*!\s*\(" % name, L.mask(text)):
            continue
        k = re.search(r"macro_rules!\s*%s\s*\{" % name, mm)
        if not k:
            raise LostAnchor("R7: macro_rules! %s not found in %s" % (name, macro_file))
        bo = k.end() - 1
        bc = L.match_close(mm, bo)
        arm = msrc[bo + 1:bc]
        am = re.match(r"\s*\(\s*\$(\w+)\s*:\s*expr\s*,\s*\$(\w+)\s*:\s*expr\s*\)\s*=>\s*\{\{(.*)\}\}\s*;?\s*$", arm, re.S)
        if not am:
            raise LostAnchor("R7: macro %s no longer has the shape ($a:expr, $b:expr) => {{ .. }}" % name)
        a, b, body = am.group(1), am.group(2), am.group(3)
        body = re.sub(r"^\s*use\s+\$crate::[^;]*;\s*$", "", body, flags=re.M)
        while True:
            m = L.mask(text)
            r = re.search(r"\b%s\s*!\s*\(" % name, m)
            if not r:
                break
            po = r.end() - 1
            pc = L.match_close(m, po)
            args = _split_top_commas(m[po + 1:pc], text[po + 1:pc])
            if len(args) != 2:
                raise LostAnchor("R7: %s! invoked with %d arguments" % (name, len(args)))
            inst = body.replace("$" + a, args[0].strip()).replace("$" + b, args[1].strip())
            text = text[:r.start()] + "({" + inst + "})" + text[pc + 1:]
            cnt += 1
    return text, cnt


def r25_eta_expand_ctor(text):
    """R25: a tuple-variant / tuple-struct constructor path passed as a function value to `map_err` / `map`,
    `.map_err(Enum::Variant)` -> `.map_err(|e__| Enum::Variant(e__))` (eta-expansion; Verus does not support datatype
    constructors as function values)."""
    m = L.mask(text)
    out, last, cnt = [], 0, 0
    for k in re.finditer(r"\.\s*(map_err|map)\s*\(\s*((?:[A-Za-z_]\w*::)+[A-Z]\w*)\s*\)", m):
        out.append(text[last:k.start()])
        out.append(".%s(|e__| %s(e__))" % (k.group(1), text[k.start(2):k.end(2)]))
        last = k.end()
        cnt += 1
    out.append(text[last:])
    return "".join(out), cnt


def r16b_iter_collect(text):
    """R16b: `RECV.iter().collect()` (no adapter in between) -> `verif_iter_collect(&RECV)`: contract-only prelude helper
    (assumed contract: the references to the elements of RECV in its iteration order)."""
    m = L.mask(text)
    out, last, cnt = [], 0, 0
    for r in re.finditer(r"([A-Za-z_][A-Za-z0-9_]*(?:\s*\.\s*[A-Za-z_][A-Za-z0-9_]*)*?)\s*\.\s*iter\s*\(\s*\)\s*\.\s*collect\s*(::<[^;()]*?>)?\s*\(\s*\)", m):
        out.append(text[last:r.start()])
        out.append("verif_iter_collect(&" + " ".join(text[r.start(1):r.end(1)].split()) + ")")
        last = r.end()
        cnt += 1
    out.append(text[last:])
    return "".join(out), cnt


def _receiver_start(m, dot):
    """Start of the receiver expression that ends just before the `.` at m[dot]: walks back over identifiers, paths,
    field/method chains, balanced (..)/[..] groups, `?` and `.await`."""
    i = dot - 1
    while i >= 0:
        while i >= 0 and m[i].isspace():
            i -= 1
        if i < 0:
            break
        c = m[i]
        if c in ")]":
            depth = 0
            j = i
            while j >= 0:
                if m[j] in ")]":
                    depth += 1
                elif m[j] in "([":
                    depth -= 1
                    if depth == 0:
                        break
                j -= 1
            i = j - 1
            # a call: the callee name (and its turbofish-free path) precedes the group
            continue
        if c == "?":
            i -= 1
            continue
        if c.isalnum() or c == "_":
            while i >= 0 and (m[i].isalnum() or m[i] == "_"):
                i -= 1
            # path or field separator before the identifier?
            k = i
            while k >= 0 and m[k].isspace():
                k -= 1
            if k >= 1 and m[k - 1:k + 1] == "::":
                i = k - 2
                continue
            if k >= 0 and m[k] == ".":
                i = k - 1
                continue
            if k >= 0 and m[k] == "&":
                return k
            return i + 1
        break
    return i + 1


def r16c_into_iter_collect(text):
    """R16c: `EXPR.into_iter().collect()` (also with a turbofish) -> `verif_into_iter_collect(EXPR)`: contract-only prelude
    helper (assumed contract: the collection built from the elements of EXPR; stated per type pair in the unit prelude)."""
    cnt = 0
    while True:
        m = L.mask(text)
        r = re.search(r"\.\s*into_iter\s*\(\s*\)\s*\.\s*collect\s*(::\s*<[^;()]*?>)?\s*\(\s*\)", m)
        if not r:
            return text, cnt
        st = _receiver_start(m, r.start())
        text = text[:st] + "verif_into_iter_collect(" + text[st:r.start()].strip() + ")" + text[r.end():]
        cnt += 1


def r16d_iter_any(text):
    """R16d: `RECV.iter().any(CLOSURE)` -> `verif_iter_any(&RECV, CLOSURE)`: contract-only helper (true iff the closure is true
    for some element); the closure body is verified against its spliced `ensures`."""
    cnt = 0
    while True:
        m = L.mask(text)
        r = re.search(r"\.\s*iter\s*\(\s*\)\s*\.\s*any\s*\(", m)
        if not r:
            return text, cnt
        po = r.end() - 1
        pc = L.match_close(m, po)
        st = _receiver_start(m, r.start())
        text = text[:st] + "verif_iter_any(&" + text[st:r.start()].strip() + ", " + text[po + 1:pc].strip() + ")" + text[pc + 1:]
        cnt += 1


def r24_enumerate_loop(text):
    """R24: `for (I, X) in RECV.iter().enumerate() {` -> `for I in 0..RECV.len() { let X = &RECV[I];` (definition of
    `enumerate` over a slice iterator; vstd has no spec for the Enumerate adapter)."""
    m = L.mask(text)
    out, last, cnt = [], 0, 0
    for r in re.finditer(r"\bfor\s*\(\s*(\w+)\s*,\s*(\w+)\s*\)\s+in\s+([A-Za-z_][\w.]*?)\s*\.\s*iter\s*\(\s*\)\s*\.\s*enumerate\s*\(\s*\)\s*\{", m):
        out.append(text[last:r.start()])
        out.append("for %s in 0..%s.len() { let %s = &%s[%s];" % (r.group(1), r.group(3), r.group(2), r.group(3), r.group(1)))
        last = r.end()
        cnt += 1
    out.append(text[last:])
    return "".join(out), cnt


def r16e_hashset_from_iter(text):
    """R16e: `HashSet::from_iter(EXPR)` -> `verif_hashset_from_iter(EXPR)`: contract-only prelude helper (assumed contract:
    the set of the items of EXPR — std documentation of `FromIterator for HashSet`)."""
    new, n = re.subn(r"\bHashSet\s*::\s*from_iter\s*\(", "verif_hashset_from_iter(", text)
    return new, n


def r22_entry_and_modify(text):
    """R22: the Entry-API chain, as a statement,
         RECV.entry(K).and_modify(|x| BODY).or_insert(V);   ->  { let k__ = K; match RECV.get_mut(&k__) { Some(x) => { BODY } None => { RECV.insert(k__, V); } } }
         RECV.entry(K).and_modify(|x| BODY);                 ->  { let k__ = K; match RECV.get_mut(&k__) { Some(x) => { BODY } None => {} } }
    This is the documented meaning of `Entry::and_modify` (run the closure on the value of an occupied entry) and
    `Entry::or_insert` (insert the default into a vacant entry); K is evaluated once, first, as before; V is evaluated
    only on the vacant path (std evaluates it eagerly, so V must be free of side effects: it is checked to contain no
    call other than `.clone()` and struct/tuple construction).  The closure BODY is kept verbatim."""
    cnt = 0
    while True:
        m = L.mask(text)
        found = False
        for r in re.finditer(r"([A-Za-z_][A-Za-z0-9_]*(?:\s*\.\s*[A-Za-z_][A-Za-z0-9_]*)*?)\s*\.\s*entry\s*\(", m):
            # must start a statement
            b = r.start() - 1
            while b >= 0 and m[b].isspace():
                b -= 1
            if b >= 0 and m[b] not in ";{}":
                continue
            ko = r.end() - 1
            kc = L.match_close(m, ko)
            t = re.match(r"\s*\.\s*and_modify\s*\(", m[kc + 1:])
            if not t:
                continue
            ao = kc + 1 + t.end() - 1
            ac = L.match_close(m, ao)
            cl = re.match(r"\s*\|\s*([A-Za-z_][A-Za-z0-9_]*)\s*(?::([^|]*))?\|", m[ao + 1:ac])   # |x| or |x: &mut T|
            if not cl:
                continue
            body = text[ao + 1 + cl.end():ac].strip().rstrip(",").strip()   # rustfmt leaves a trailing comma after a multi-line closure argument
            if not body.startswith("{"):
                body = "{ " + body + "; }"
            var = cl.group(1)
            if cl.group(2) and cl.group(2).strip():
                # the closure's parameter annotation is kept as a typed re-binding (it may drive type inference)
                ty = text[ao + 1 + cl.start(2):ao + 1 + cl.end(2)].strip()
                body = "{ let %s: %s = %s; %s }" % (var, ty, var, body)
            rest = m[ac + 1:]
            t2 = re.match(r"\s*\.\s*or_insert\s*\(", rest)
            if t2:
                oo = ac + 1 + t2.end() - 1
                oc = L.match_close(m, oo)
                v = text[oo + 1:oc].strip()
                t3 = re.match(r"\s*;", m[oc + 1:])
                if not t3:
                    continue
                # V must be effect-free: only `.clone()` calls allowed
                calls = re.findall(r"([A-Za-z_][A-Za-z0-9_]*)\s*\(", L.mask(v))
                if any(c != "clone" for c in calls):
                    continue
                end = oc + 1 + t3.end()
                none_arm = "None => { %s.insert(k__, %s); }" % (" ".join(text[r.start(1):r.end(1)].split()), v)
            else:
                t3 = re.match(r"\s*;", rest)
                if not t3:
                    continue
                end = ac + 1 + t3.end()
                none_arm = "None => {}"
            recv = " ".join(text[r.start(1):r.end(1)].split())
            key = text[ko + 1:kc].strip()
            new = "{ let k__ = %s; match %s.get_mut(&k__) { Some(%s) => %s %s } }" % (key, recv, var, body, none_arm)
            text = text[:r.start()] + new + text[end:]
            cnt += 1
            found = True
            break
        if not found:
            return text, cnt


def r23_hashset_into_iter(text, exprs):
    """R23 (HashSet form): `for PAT in EXPR` over a HashSet consumed by value -> `for PAT in verif_hashset_into_elems(EXPR)`:
    the Vec of the set's elements in an unspecified order, each exactly once (contract of `HashSet::into_iter`)."""
    n = 0
    for e in exprs:
        pat = r"(\bfor\s+[^{;]*?\bin\s+)" + re.escape(e) + r"(\s*\{)"
        text, k = re.subn(pat, lambda mo: mo.group(1) + "verif_hashset_into_elems(" + e + ")" + mo.group(2), text)
        n += k
    return text, n


def r23_hashset_ref_iter(text, exprs):
    """R23 (by-reference HashSet form): `for PAT in EXPR` where EXPR is a `&HashSet<T>` -> `for PAT in verif_hashset_ref_elems(EXPR)`:
    the Vec of references to the set's elements in an unspecified order, each exactly once (contract of `HashSet::iter`)."""
    n = 0
    for e in exprs:
        pat = r"(\bfor\s+[^{;]*?\bin\s+)" + re.escape(e) + r"(\s*\{)"
        text, k = re.subn(pat, lambda mo: mo.group(1) + "verif_hashset_ref_elems(" + e + ")" + mo.group(2), text)
        n += k
    return text, n


def r23_hashmap_into_iter(text, exprs):
    """R23: `for PAT in EXPR` where unit.toml declares EXPR to be a HashMap consumed by value ->
    `for PAT in verif_hashmap_into_entries(EXPR)`: the contract-only helper returns the Vec of the map's entries in an
    unspecified order, every key exactly once — the contract of `HashMap::into_iter` (vstd has no spec for
    `hash_map::IntoIter`)."""
    n = 0
    for e in exprs:
        pat = r"(\bfor\s+[^{;]*?\bin\s+)" + re.escape(e) + r"(\s*\{)"
        base = e[:-len(".into_iter()")] if e.endswith(".into_iter()") else e   # explicit `.into_iter()` = the same by-value iteration
        pat = r"(\bfor\s+[^{;]*?\bin\s+)" + re.escape(base) + r"(?:\s*\.\s*into_iter\s*\(\s*\))?(\s*\{)"   # both spellings
        text, k = re.subn(pat, lambda mo: mo.group(1) + "verif_hashmap_into_entries(" + base + ")" + mo.group(2), text)
        n += k
    return text, n


RULES = {
    "R22": r22_entry_and_modify,
    "R16e": r16e_hashset_from_iter,
    "R16c": r16c_into_iter_collect,
    "R16d": r16d_iter_any,
    "R24": r24_enumerate_loop,
    "R16b": r16b_iter_collect,
    "R25": r25_eta_expand_ctor,
    "R18b": r18b_hoist_question_mark,
    "R17b": r17b_tail_continue,
    "R20": r20_mut_self,
    "R18": r18_question_mark,
    "R17": r17_continue_elimination,
    "R16": r16_split_iter_map_collect,
    "R15": r15_static_to_const,
    "R1": r1_strip_attrs_comments,
    "R2": r2_let_chains,
    "R3": r3_tuple_closure_params,
    "R4": r4_opaque_format,
    "R5": r5_drop_logging,
    "R6": r6_ready_macro,
    "R10": r10_pin_self,
    "R12": r12_pub_fields,
}
