"""Locate and copy items (fn, method, struct, enum, const, type, trait, closure) from a
Rust source file.  A missing item raises LostAnchor."""
import re
from . import rustlex as L


class LostAnchor(Exception):
    pass


class Item:
    def __init__(self, spec, kind, name, text, file, line, impl_header=None, owner=None):
        self.spec = spec          # the spec string from unit.toml
        self.kind = kind          # fn | method | struct | enum | const | type | trait | static | closure
        self.name = name          # qualified name (Type::name for methods)
        self.text = text          # verbatim text
        self.file = file
        self.line = line          # 1-based line of item start in repo file
        self.impl_header = impl_header  # verbatim 'impl<..> T<..> where ..' for methods
        self.owner = owner


def _line_of(src, pos):
    return src.count("\n", 0, pos) + 1


def _impl_selfty(header_mask: str):
    """From 'impl<..> [Trait for] Type<..> [where ..]' return (trait_or_None, type_name)."""
    h = header_mask.strip()
    if not re.match(r"(unsafe\s+)?impl\b", h):
        return None
    h = re.sub(r"^(unsafe\s+)?impl\b", "", h).strip()
    if h.startswith("<"):
        h = h[L.match_angle(h, 0) + 1:].strip()
    w = re.search(r"\bwhere\b", h)
    if w:
        h = h[:w.start()].strip()
    tr = None
    f = re.search(r"\bfor\b", h)
    if f:
        tr = h[:f.start()].strip()
        h = h[f.end():].strip()
    def base(t):
        t = t.strip().lstrip("&").strip()
        t = re.sub(r"^(mut|dyn)\s+", "", t)
        mm = re.match(r"([A-Za-z_][A-Za-z0-9_:]*)", t)
        if not mm:
            return t
        return mm.group(1).split("::")[-1]
    return (base(tr) if tr else None, base(h))


def find_item(src: str, m: str, spec: str, file: str) -> Item:
    """spec forms:
         fn NAME                free function (module level, outside mod tests)
         fn TYPE::NAME          method in an inherent impl of TYPE
         fn TRAIT@TYPE::NAME    method in `impl TRAIT for TYPE`
         struct|enum|trait|const|static|type NAME
       optional suffix `#k` selects the k-th match (1-based) when several exist."""
    spec = spec.strip()
    sel = None
    ms = re.match(r"(.*)#(\d+)$", spec)
    base_spec = spec
    if ms:
        base_spec, sel = ms.group(1).strip(), int(ms.group(2))
    kind, _, name = base_spec.partition(" ")
    name = name.strip()
    if kind == "closure":
        # `closure OWNER::FN#k as NAME` (k-th closure, 1-based, in the body of fn OWNER::FN):
        # the closure is lifted to a named function; its parameter list and return type are
        # declared in unit.toml (`sig`), the body text is copied verbatim (rule R19).
        mm = re.match(r"(.+?)#(\d+)\s+as\s+(\w+)$", spec[len("closure"):].strip())
        if not mm:
            raise LostAnchor("bad closure spec `%s`" % spec)
        host = find_item(src, m, "fn " + mm.group(1), file)
        k = int(mm.group(2))
        hm = L.mask(host.text)
        fp = L.FnParts(host.text)
        cl = L.find_closures(hm, fp.body_open + 1, fp.body_close)
        if k > len(cl):
            raise LostAnchor("%s: closure #%d of %s not found" % (file, k, mm.group(1)))
        c = cl[k - 1]
        bs, be = c["body"]
        body = host.text[bs:be]
        if not c["braced"]:
            body = "{ " + body + " }"
        params = host.text[c["bars"][0] + 1:c["bars"][1] - 1].strip()
        line = host.line + host.text.count("\n", 0, c["bars"][0])
        it = Item(spec, "closure", mm.group(3), body, file, line)
        it.closure_params = params
        return it
    if kind == "impl":
        # `impl TYPE[#k]`: the k-th inherent `impl TYPE { .. }` block, copied whole (used for blocks of associated consts)
        cands = []
        for k in re.finditer(r"\bimpl\b", m):
            if L.in_test_mod(m, k.start()) or L.enclosing_blocks(m, k.start()):
                continue
            o = m.find("{", k.end())
            if o < 0:
                continue
            st = _impl_selfty(m[k.start():o])
            if st is None or st[0] is not None or st[1] != name:
                continue
            cands.append((k.start(), L.match_close(m, o) + 1))
        if not cands or (sel or 1) > len(cands):
            raise LostAnchor("%s: `%s` not found" % (file, spec))
        a, b = cands[(sel or 1) - 1]
        return Item(spec, "implblock", name, src[a:b], file, _line_of(src, a))
    if kind == "arm":
        # `arm OWNER::FN => PATTERN-PREFIX as NAME`: the body of the match arm of fn OWNER::FN whose pattern starts with the
        # given text is lifted to a named function (rule R19, match-arm form); signature declared in unit.toml (`sig`),
        # body text copied verbatim.
        mm = re.match(r"(.+?)\s*=>\s*(.+?)\s+as\s+(\w+)$", spec[len("arm"):].strip())
        if not mm:
            raise LostAnchor("bad arm spec `%s`" % spec)
        host = find_item(src, m, "fn " + mm.group(1), file)
        hm = L.mask(host.text)
        pat = "".join(mm.group(2).split())
        hit = None
        for k in re.finditer(r"=>", hm):
            # pattern text: back to the previous `,` `{` or `}` at the same level
            j = k.start() - 1
            depth = 0
            while j >= 0:
                c = hm[j]
                if c in ")]}":
                    if c == "}" and depth == 0:
                        break
                    depth += 1
                elif c in "([{":
                    if depth == 0:
                        break
                    depth -= 1
                elif c == "," and depth == 0:
                    break
                j -= 1
            ptxt = "".join(hm[j + 1:k.start()].split())
            if ptxt.startswith(pat):
                hit = k
                break
        if hit is None:
            raise LostAnchor("%s: match arm `%s` of %s not found" % (file, mm.group(2), mm.group(1)))
        b = L.skip_ws(hm, hit.end())
        if hm[b] != "{":
            raise LostAnchor("%s: match arm `%s` of %s has no block body" % (file, mm.group(2), mm.group(1)))
        e = L.match_close(hm, b)
        body = host.text[b:e + 1]
        line = host.line + host.text.count("\n", 0, b)
        return Item(spec, "closure", mm.group(3), body, file, line)
    if kind == "fn":
        trait = None
        owner = None
        fname = name
        if "::" in name:
            owner, fname = name.rsplit("::", 1)
            if "@" in owner:
                trait, owner = owner.split("@", 1)
        cands = []
        for k in re.finditer(r"\bfn\s+%s\b" % re.escape(fname), m):
            pos = k.start()
            if L.in_test_mod(m, pos):
                continue
            blocks = L.enclosing_blocks(m, pos)
            # innermost non-mod block
            inner = None
            for o, h in reversed(blocks):
                if re.search(r"\bmod\s+\w+\s*$", h.strip()):
                    continue
                inner = (o, h)
                break
            if owner is None:
                if inner is None:
                    cands.append((pos, None))
            else:
                if inner is None:
                    continue
                st = _impl_selfty(inner[1])
                if st is None:
                    continue
                tr, ty = st
                if ty != owner:
                    continue
                if trait is None and tr is not None:
                    continue
                if trait is not None and tr != trait:
                    continue
                cands.append((pos, inner))
        if not cands:
            raise LostAnchor("%s: `%s` not found" % (file, spec))
        if len(cands) > 1 and sel is None:
            raise LostAnchor("%s: `%s` is ambiguous (%d matches)" % (file, spec, len(cands)))
        pos, inner = cands[(sel or 1) - 1]
        start = L.item_start(m, pos)
        bo = L.fn_body_open(m, pos)
        end = (L.match_close(m, bo) if m[bo] == "{" else bo) + 1
        s2 = L.skip_ws(m, start)
        # include leading attrs / doc comments: start from first non-ws char in *original*
        s0 = start
        while s0 < pos and src[s0].isspace():
            s0 += 1
        text = src[s0:end]
        hdr = None
        if inner is not None:
            o, h = inner
            hs = L.item_start(m, o)
            # header from the 'impl' keyword (skip attrs/docs)
            ik = re.search(r"\b(unsafe\s+)?impl\b", m[hs:o])
            hdr = src[hs + ik.start():o].strip()
        # several items of the same name (trait impls for different type arguments): the k-th (k >= 2) carries `#k` in its name
        iname = name + ("#%d" % sel if sel and sel >= 2 else "")
        return Item(spec, "method" if owner else "fn", iname, text, file, _line_of(src, s0), hdr, owner)
    elif kind in ("struct", "enum", "trait", "union"):
        cands = []
        for k in re.finditer(r"\b%s\s+%s\b" % (kind, re.escape(name)), m):
            if L.in_test_mod(m, k.start()):
                continue
            cands.append(k.start())
        if not cands:
            raise LostAnchor("%s: `%s` not found" % (file, spec))
        pos = cands[(sel or 1) - 1]
        start = L.item_start(m, pos)
        i = pos
        while True:
            c = m[i]
            if c in "([":
                i = L.match_close(m, i)
            elif c == "<":
                try:
                    i = L.match_angle(m, i)
                except L.LexError:
                    pass
            elif c == "{":
                end = L.match_close(m, i) + 1
                break
            elif c == ";":
                end = i + 1
                break
            i += 1
        s0 = start
        while s0 < pos and src[s0].isspace():
            s0 += 1
        return Item(spec, kind, name, src[s0:end], file, _line_of(src, s0))
    elif kind in ("const", "static", "type"):
        cands = []
        for k in re.finditer(r"\b%s\s+%s\b" % (kind, re.escape(name)), m):
            if L.in_test_mod(m, k.start()):
                continue
            cands.append(k.start())
        if not cands:
            raise LostAnchor("%s: `%s` not found" % (file, spec))
        pos = cands[(sel or 1) - 1]
        start = L.item_start(m, pos)
        i = pos
        while True:
            c = m[i]
            if c in "([{":
                i = L.match_close(m, i)
            elif c == ";":
                end = i + 1
                break
            i += 1
        s0 = start
        while s0 < pos and src[s0].isspace():
            s0 += 1
        return Item(spec, kind, name, src[s0:end], file, _line_of(src, s0))
    else:
        raise LostAnchor("unknown item kind in spec `%s`" % spec)
