"""Replay of counterexamples against the compiled real crates, Kani harnesses on the real
source files, bounded stand-ins.  None of this *decides* a property: it runs after an
obligation failed (to find/confirm a failing input) or as a cross-check in `thorough`."""
import json
import os
import subprocess
import time
import tomllib

from .unit import VERIF

RDIR = os.path.join(VERIF, "replay")
TARGET = os.path.join(VERIF, ".cache", "target")


def _cfg():
    p = os.path.join(RDIR, "replays.toml")
    if not os.path.exists(p):
        return {}
    return tomllib.load(open(p, "rb"))


def _env():
    e = dict(os.environ)
    e["CARGO_NET_OFFLINE"] = "true"
    e["CARGO_TARGET_DIR"] = TARGET
    e["RUSTFLAGS"] = "--cfg p2panda_p2panda_verif"
    return e


def _run_bin(entry, args, timeout=1800):
    lock = os.path.join(RDIR, entry["crate"], "Cargo.lock")
    if not os.path.exists(lock) and os.path.exists("/repo/Cargo.lock"):
        import shutil
        shutil.copy("/repo/Cargo.lock", lock)
    cmd = ["cargo", "run", "--offline", "-q", "--manifest-path", os.path.join(RDIR, entry["crate"], "Cargo.toml")]
    if entry.get("release", True):
        cmd.append("--release")
    if entry.get("bin"):
        cmd += ["--bin", entry["bin"]]
    cmd += ["--"] + list(args)
    try:
        p = subprocess.run(cmd, capture_output=True, text=True, env=_env(), timeout=timeout, cwd=os.path.join(RDIR, entry["crate"]))
    except subprocess.TimeoutExpired:
        return [], "timeout"
    res = []
    for l in p.stdout.splitlines():
        l = l.strip()
        if l.startswith("{"):
            try:
                res.append(json.loads(l))
            except Exception:
                pass
    err = None
    if p.returncode not in (0, 1) or (not res and p.returncode != 0):
        err = "replay build/run failed rc=%d: %s" % (p.returncode, p.stderr[-1500:])
    return res, err


def replay(prop, failed_ids, tier, seed):
    """Returns list of dicts: {violation: bool, class: str, input: .., observed: .., obligations: [...]}"""
    cfg = _cfg().get(prop)
    if not cfg:
        return []
    out = []
    for entry in [cfg] + list(cfg.get("also", [])):
        res, err = _run_bin(entry, ["--seed", str(seed), "--tier", tier] + list(failed_ids))
        if err:
            out.append(dict(violation=False, error=err))
        else:
            out += res
    return out


def run_standins(prop, tier, seed):
    """Bounded stand-ins for functions outside the verifier's reach whose contract the proof ASSUMES (e.g. SQL executed by
    SQLite). Always run; labelled bounded; never counted as proved. Returns list of dicts."""
    out = []
    for b in _cfg().get(prop, {}).get("standin", []):
        if tier == "quick" and not b.get("quick", True):
            continue
        t0 = time.time()
        res, err = _run_bin(b, ["--bounded", "--seed", str(seed), "--tier", tier])
        summ = [r for r in res if r.get("summary")]
        bad = [r for r in res if r.get("violation")]
        s = summ[0] if summ else {}
        out.append(dict(crate=b["crate"], bin=b.get("bin"), function=b.get("function") or s.get("function"), label="BOUNDED (not a proof)",
                        error=err, evaluations=s.get("evaluations", 0), distinct_nontrivial=s.get("distinct_nontrivial", 0),
                        rule=s.get("rule"), bound=s.get("bound"), exhaustive=s.get("exhaustive", False),
                        violations=bad, wall_s=round(time.time() - t0, 2)))
    return out


def rerun(prop, path):
    d = json.load(open(path))
    cfg = _cfg().get(prop)
    if d.get("standin"):
        cfg = dict(d["standin"])
    if not cfg:
        print("no replay binary for %s; stored verifier output:" % prop)
        print(json.dumps(d.get("verifier_output"), indent=1)[:4000])
        return 0
    res = []
    for entry in [cfg] + list(cfg.get("also", [])):
        r1, err = _run_bin(entry, ["--input", json.dumps(d.get("failing_inputs", []))] + [d.get("obligation", "")])
        if err:
            print(err)
            return 2
        res += r1
    bad = [r for r in res if r.get("violation")]
    for r in res:
        print(json.dumps(r))
    if bad:
        print("VIOLATION property=%s replay=%s" % (prop, path))
        return 1
    return 0


def run_kani(prop, tier):
    cfg = _cfg().get(prop, {})
    k = cfg.get("kani")
    if not k or (tier == "quick" and not k.get("quick", False)):
        return None
    out = []
    kdir = os.path.join(VERIF, "kani", k["crate"])
    lock = "/repo/Cargo.lock"
    if os.path.exists(lock):
        try:
            import shutil
            shutil.copy(lock, os.path.join(kdir, "Cargo.lock"))
        except OSError:
            pass
    for h in k["harnesses"]:
        t0 = time.time()
        cmd = ["cargo", "kani", "-Z", "stubbing", "-Z", "function-contracts", "--harness", h,
               "-Z", "concrete-playback", "--concrete-playback=print"]
        e = dict(os.environ)
        e["CARGO_NET_OFFLINE"] = "true"
        e["CARGO_TARGET_DIR"] = os.path.join(VERIF, ".cache", "kani-target")
        try:
            p = subprocess.run(cmd, capture_output=True, text=True, env=e, cwd=kdir, timeout=k.get("timeout", 600))
            txt = p.stdout + p.stderr
            ok = "VERIFICATION:- SUCCESSFUL" in txt
            fail = "VERIFICATION:- FAILED" in txt
            vals = [l.strip() for l in txt.splitlines() if l.strip().startswith("//") or "concrete_vals" in l][:20]
            out.append(dict(harness=h, result="successful" if ok else "failed" if fail else "error",
                            s=round(time.time() - t0, 1), concrete=vals if fail else [],
                            tail=None if (ok or fail) else txt[-800:]))
        except subprocess.TimeoutExpired:
            out.append(dict(harness=h, result="timeout", s=round(time.time() - t0, 1)))
    return out


def bounded_fallback(prop, tier, seed, known_classes=()):
    """known_classes: failing-input classes of this property listed in known_findings.txt — a recorded defect found again by
    the stand-in is reported as KNOWN-FINDING by the caller, not as a violation of the changed tree."""
    cfg = _cfg().get(prop, {})
    b = cfg.get("bounded")
    if not b:
        return None
    # the proof is lost, so the bounded replay is all there is for this run: use its larger (thorough) bound in every tier
    res, err = _run_bin(dict(crate=b["crate"], bin=b.get("bin")), ["--bounded", "--seed", str(seed), "--tier", "thorough"])
    if err:
        return None
    summ = [r for r in res if r.get("summary")]
    bad_all = [r for r in res if r.get("violation")]
    bad = [r for r in bad_all if r.get("class") not in known_classes]
    known_hit = sorted({r.get("class") for r in bad_all if r.get("class") in known_classes})
    if not summ:
        return None
    s = summ[0]
    evals = int(s.get("evaluations", 0) or 0)
    ev = dict(property_id=prop, tier=tier, seed=seed, level="exploration",
              coverage=dict(evaluations=max(evals, 1), distinct_nontrivial=max(int(s.get("distinct_nontrivial", evals) or evals), 2),
                            rule=s.get("rule") or ("replay binary %s/%s on the real code (see its header comment); every evaluation is a distinct directed case" % (b["crate"], b.get("bin"))),
                            samples=s.get("samples") or [dict((k, v) for k, v in s.items() if k not in ("summary",))], bound=s.get("bound"),
                            exhaustive=s.get("exhaustive", False)),
              assumptions=["BOUNDED stand-in on the real code; not a proof"], wall_s=0, violations=len(bad))
    rp = None
    if bad:
        rp = os.path.join(VERIF, "evidence", "replays", "%s-bounded.json" % prop)
        json.dump(dict(property=prop, failing_inputs=bad[:3], note="found by bounded stand-in after the proof was lost"), open(rp, "w"), indent=1)
    return dict(evidence=ev, violation=bool(bad), replay=rp, known_hit=known_hit)
