"""Unit generation: read unit.toml + contracts.vrs, extract items from /repo,
apply rewrite rules, splice contracts, emit one Verus file plus a side table."""
import hashlib
import json
import os
import re
import tomllib

from . import rustlex as L
from . import rules as R
from .extract import find_item, LostAnchor, Item

REPO = os.environ.get("VERIF_REPO", "/repo")
VERIF = os.path.dirname(os.path.dirname(os.path.abspath(__file__)))


class UnitError(Exception):
    """Machinery problem (bad contract file, unsupported construct): exit 2."""


# --------------------------------------------------------------------------
# contracts.vrs parsing

SECTION_KW = ("cancel_safe", "before_tail", "body_entry", "before", "after", "requires", "ensures", "invariant", "invariant_except_break", "ensures_loop", "decreases", "entry", "header", "props", "ret", "flags", "iter", "recommends", "before_body_end")


class Clause:
    def __init__(self, label, props, text):
        self.label = label
        self.props = props  # list or None (inherit)
        self.text = text


class Contract:
    def __init__(self, kind, key):
        self.kind = kind      # fn | loop | closure
        self.key = key        # fn name or ordinal
        self.props = None
        self.ret = "r"
        self.flags = set()
        self.sections = {}    # name -> [Clause]
        self.raw = {}         # name -> str (entry, header, decreases, iter)
        self.loops = {}       # ordinal -> Contract
        self.closures = {}    # ordinal -> Contract


def parse_contracts(path):
    fns = {}
    if not os.path.exists(path):
        return fns
    cur_fn = None
    cur = None
    sec = None
    clause = None
    lineno = 0
    for raw in open(path):
        lineno += 1
        line = raw.rstrip("\n")
        if not line.strip() or line.lstrip().startswith("//#"):
            continue
        if line.startswith("@fn "):
            name = line[4:].strip()
            cur_fn = cur = Contract("fn", name)
            fns[name] = cur
            sec = None
            continue
        if line.startswith("@loop "):
            k = int(line.split()[1])
            cur = Contract("loop", k)
            cur_fn.loops[k] = cur
            for tok in line.split()[2:]:
                if tok.startswith("iter="):
                    cur.raw["iter"] = tok[5:]
            sec = None
            continue
        if line.startswith("@after_stmt "):
            rx = line[len("@after_stmt "):].strip()
            cur = Contract("after_stmt", rx)
            cur_fn.after_stmts = getattr(cur_fn, "after_stmts", [])
            cur_fn.after_stmts.append(cur)
            cur.raw["entry"] = ""
            sec = "entry"
            continue
        if line.startswith("@await_matching "):
            rx = line[len("@await_matching "):].strip()
            cur = Contract("await", rx)
            cur_fn.awaits_matching = getattr(cur_fn, "awaits_matching", [])
            cur_fn.awaits_matching.append(cur)
            sec = None
            continue
        if line.startswith("@await "):
            k = line.split()[1]
            k = "all" if k == "all" else int(k)
            cur = Contract("await", k)
            cur_fn.awaits = getattr(cur_fn, "awaits", {})
            cur_fn.awaits[k] = cur
            sec = None
            continue
        if line.startswith("@before_let "):
            nm = line.split()[1]
            cur = Contract("before_let", nm)
            cur_fn.before_lets = getattr(cur_fn, "before_lets", {})
            cur_fn.before_lets[nm] = cur
            cur.raw["entry"] = ""
            sec = "entry"
            continue
        if line.startswith("@after_let "):
            nm = line.split()[1]
            cur = Contract("after_let", nm)
            if ":" in line:
                cur.raw["type"] = line.split(":", 1)[1].strip()
            cur_fn.after_lets = getattr(cur_fn, "after_lets", {})
            cur_fn.after_lets[nm] = cur
            cur.raw["entry"] = ""
            sec = "entry"
            continue
        if line.startswith("@closure "):
            k = line.split()[1]
            # `@closure 3` = third closure of the function; `@closure |err|#2` = second closure whose parameter list is `|err|`
            # (robust against closures being added or removed elsewhere in the function)
            k = int(k) if k.isdigit() else line[len("@closure "):].strip()
            cur = Contract("closure", k)
            cur_fn.closures[k] = cur
            sec = None
            continue
        if cur is None:
            raise UnitError("%s:%d: text before first @fn" % (path, lineno))
        head = line.split()[0] if not line[0].isspace() else None
        if head in SECTION_KW:
            rest = line[len(head):].strip()
            sec = head
            if head == "props":
                cur.props = rest.replace(",", " ").split()
                sec = None
            elif head == "ret":
                cur.ret = rest
                sec = None
            elif head == "flags":
                cur.flags |= set(rest.split())
                sec = None
            elif head in ("entry", "header", "decreases", "iter", "before_body_end", "body_entry", "before", "after", "before_tail"):
                cur.raw[head] = rest
            else:
                cur.sections.setdefault(head, [])
                if rest:
                    raise UnitError("%s:%d: clause text must follow on indented lines" % (path, lineno))
            clause = None
            continue
        if sec is None:
            raise UnitError("%s:%d: unexpected line" % (path, lineno))
        s = line.strip()
        if sec in ("entry", "header", "decreases", "iter", "before_body_end", "body_entry", "before", "after", "before_tail"):
            cur.raw[sec] = (cur.raw[sec] + "\n" + line) if cur.raw[sec] else line
            continue
        mm = re.match(r"\[([A-Za-z0-9_.\-]+)((?:\s+C\d+)*)\]\s*(.*)$", s)
        if mm:
            props = mm.group(2).split() or None
            clause = Clause(mm.group(1), props, mm.group(3))
            cur.sections[sec].append(clause)
        else:
            if clause is None:
                raise UnitError("%s:%d: clause needs a [label]" % (path, lineno))
            clause.text += "\n" + line
    return fns


# --------------------------------------------------------------------------
# generation

class Gen:
    def __init__(self):
        self.lines = []
        self.regions = []   # dict(kind, name, lo, hi, ...) ; 1-based inclusive gen lines

    def cur(self):
        return len(self.lines) + 1

    def emit(self, text):
        lo = self.cur()
        for l in text.split("\n"):
            self.lines.append(l)
        return lo, self.cur() - 1

    def region(self, lo, hi, **kw):
        d = dict(lo=lo, hi=hi)
        d.update(kw)
        self.regions.append(d)
        return d

    def text(self):
        return "\n".join(self.lines) + "\n"


class Unit:
    def __init__(self, name):
        self.name = name
        self.dir = os.path.join(VERIF, "units", name)
        cfgp = os.path.join(self.dir, "unit.toml")
        if not os.path.exists(cfgp):
            raise UnitError("no such unit: %s" % name)
        self.cfg = tomllib.load(open(cfgp, "rb"))
        self.props = self.cfg.get("properties", [])
        self.contracts = parse_contracts(os.path.join(self.dir, "contracts.vrs"))
        # contracts shared with another unit (same real function under the same contract): only for functions this unit extracts
        self.shared_contracts = {}
        for other in self.cfg.get("include_contracts", []):
            for k, v in parse_contracts(os.path.join(VERIF, "units", other, "contracts.vrs")).items():
                self.shared_contracts.setdefault(k, v)
        self.rules_applied = {}
        self.dropped = []
        self.items = []
        self.lost = []
        self.functions = []   # metadata of contracted fns
        self.obligations = [] # dict(id, fn, kind, label, props, lo, hi)
        self.override = {}    # item name -> already rewritten text (mutation self-test only)

    # ---- extraction ----
    def extract(self):
        srcs = {}
        self._shared_pending = True
        for s in self.cfg.get("source", []):
            f = s["file"]
            p = os.path.join(REPO, f)
            if f not in srcs:
                try:
                    txt = open(p).read()
                    srcs[f] = (txt, L.mask(txt))
                except (OSError, L.LexError) as e:
                    self.lost.append("%s: %s" % (f, e))
                    continue
            src, m = srcs[f]
            for spec in s["items"]:
                opts = {}
                if isinstance(spec, dict):
                    opts = spec
                    spec = spec["item"]
                try:
                    it = find_item(src, m, spec, f)
                    it.opts = opts
                    it.src_opts = s
                    self.items.append(it)
                except (LostAnchor, L.LexError) as e:
                    self.lost.append(str(e))
        for it in self.items:
            if it.name not in self.contracts and it.name in self.shared_contracts:
                self.contracts[it.name] = self.shared_contracts[it.name]
        self._auto_consts(srcs)
        return self.items

    def _auto_consts(self, srcs):
        """R21: a module-level `const` of the same file that an extracted function mentions and that neither the unit's
        item list nor its prelude defines is extracted as well (mechanically, verbatim), so that introducing or renaming
        a constant does not by itself lose the proof."""
        pre = ""
        for inc in self.cfg.get("includes", []):
            try: pre += open(os.path.join(VERIF, "units", inc)).read()
            except OSError: pass
        try: pre += open(os.path.join(self.dir, "prelude.rs")).read()
        except OSError: pass
        have = {it.name for it in self.items if it.kind not in ("fn", "method")}
        added = []
        for it in list(self.items):
            if it.kind not in ("fn", "method", "closure") or it.file not in srcs:
                continue
            src, m = srcs[it.file]
            try:
                mt = L.mask(it.text)
            except L.LexError:
                continue
            for nm in sorted(set(re.findall(r"(?<![\w:])[A-Z][A-Z0-9_]{2,}\b", mt))):
                if nm in have or re.search(r"\b(const|static)\s+%s\b" % nm, pre):
                    continue
                try:
                    c = find_item(src, m, "const " + nm, it.file)
                except (LostAnchor, L.LexError):
                    continue
                c.opts = {}
                c.src_opts = it.src_opts
                have.add(nm)
                added.append(c)
                self._count("R21", 1)
        self.items = added + self.items
        self.auto_items = ["%s: const %s" % (c.file, c.name) for c in added]

    # ---- rewriting ----
    def _count(self, rule, n):
        if n:
            self.rules_applied[rule] = self.rules_applied.get(rule, 0) + n

    def rewrite(self, it: Item):
        if it.name in self.override:
            return self.override[it.name]
        enabled = it.src_opts.get("rules", self.cfg.get("rules", ["R1", "R2", "R3", "R4", "R5", "R6", "R10", "R12", "R15", "R16", "R17", "R20"]))
        t = it.text
        keep = set(it.opts.get("keep_derives", self.cfg.get("keep_derives", list(R.KEEP_DERIVES))))
        if "R1" in enabled:
            t, n = R.r1_strip_attrs_comments(t, keep)
            self._count("R1", n)
        if "R7" in enabled:
            t, n = R.r7_expand_repo_macros(t, os.path.join(REPO, "p2panda-store/src/macros.rs"))
            self._count("R7", n)
        for r in ("R25", "R2", "R5", "R4", "R6", "R16", "R16b", "R16c", "R16d", "R16e", "R24", "R17", "R17b", "R22", "R3", "R10", "R15", "R18", "R18b", "R20"):
            if r in enabled or (r == "R17b" and "R17" in enabled) or r == "R25" or (r == "R16b" and "R16" in enabled):
                t, n = R.RULES[r](t)
                self._count(r, n)
        if "R12" in enabled:
            t, n = R.r12_pub_fields(t)
            self._count("R12", n)
        exprs = it.opts.get("map_iter", [])
        if exprs:
            t, n = R.r11_map_ref_iter(t, exprs)
            self._count("R11", n)
        exprs = it.opts.get("hashmap_into_iter", [])
        if exprs:
            t, n = R.r23_hashmap_into_iter(t, exprs)
            self._count("R23", n)
        exprs = it.opts.get("hashset_ref_iter", [])
        if exprs:
            t, n = R.r23_hashset_ref_iter(t, exprs)
            self._count("R23", n)
        exprs = it.opts.get("hashset_into_iter", [])
        if exprs:
            t, n = R.r23_hashset_into_iter(t, exprs)
            self._count("R23", n)
        aw = it.opts.get("await_erase", self.cfg.get("await_erase"))
        if aw:
            t, n = R.r9_await_erasure(t, aw, mark=bool(it.opts.get("await_marks", self.cfg.get("await_marks", False))))
            self._count("R9", n)
            if it.opts.get("async_erase", self.cfg.get("async_erase", False)):
                t, n = R.r9_async_fn_erasure(t)
                self._count("R9", n)
        # declared substitutions (R8/R13: bound/shim replacement); each is listed in evidence
        for sub in self.cfg.get("subst", []) + it.opts.get("subst", []):
            if "only" in sub and it.name not in sub["only"]:
                continue
            pat = sub["pattern"]
            new, n = re.subn(pat, sub["replace"], t)
            if n == 0 and sub.get("required", False) and ("only" in sub):
                self.lost.append("%s: declared substitution `%s` no longer matches %s" % (it.file, pat, it.name))
            t = new
            self._count(sub.get("rule", "R8"), n)
            if n and sub.get("drops"):
                d = "%s: %s" % (sub.get("rule", "R8"), sub["drops"])
                if d not in self.dropped:
                    self.dropped.append(d)
        return t

    # ---- splicing ----
    # A spliced function is a list of segments: ("t", text) verbatim text, or
    # ("c", text, meta) a contract clause that is emitted on its own line(s) so that
    # verifier diagnostics can be mapped back to the clause.
    def splice_fn(self, it: Item, text: str, g: Gen, canary=False):
        c = self.contracts.get(it.name)
        fp = L.FnParts(text)
        variant = canary if isinstance(canary, str) else None   # "effects": twin carrying only the after-effect cancel-point obligations
        if variant:
            canary = False
        self._variant = variant
        name = fp.name + ("__canary" if canary else "") + ("__" + variant if variant else "")
        props = (c.props if c and c.props else it.opts.get("props", self.props))
        fq = it.name + ("__canary" if canary else "") + ("__" + variant if variant else "")
        segs = []
        if c and "loop_isolation_false" in c.flags:
            segs.append(("t", "#[verifier::loop_isolation(false)]\n"))
        if c and "may_not_terminate" in c.flags:
            # the function legitimately waits forever (e.g. for the next item): partial correctness only; listed in evidence
            segs.append(("t", "#[verifier::exec_allows_no_decreases_clause]\n"))
            d = "termination of %s is not proved (it may wait forever by design)" % it.name
            if d not in self.dropped:
                self.dropped.append(d)
        head = text[:fp.name_span[0]] + name + text[fp.name_span[1]:fp.params_close + 1]
        if fp.ret_span:
            rt = text[fp.ret_span[0]:fp.ret_span[1]].strip()
            binder = c.ret if c else "r"
            head += " -> (%s: %s)" % (binder, rt)
        if fp.where_pos is not None:
            head += "\n    " + text[fp.where_pos:fp.body_open].strip()
        segs.append(("t", head + "\n"))
        obl = []

        def add_section(kw, clauses, kindname, prefix, indent="    "):
            if not clauses:
                return
            segs.append(("t", indent + kw + "\n"))
            for cl in clauses:
                meta = None
                if canary:
                    meta = dict(region="canary_clause", fn=fq)
                elif variant and kindname != "requires":
                    segs.append(("t", indent + "    " + cl.text.strip() + ",\n"))
                    continue
                elif kindname == "requires":
                    meta = dict(region="requires", fn=fq, label=cl.label)
                else:
                    meta = dict(obl=dict(id="%s::%s.%s#%s" % (self.name, it.name, prefix, cl.label), fn=it.name,
                                         kind=kindname, label=cl.label, props=cl.props or props,
                                         text=cl.text.strip()))
                segs.append(("c", indent + "    " + cl.text.strip() + ",", meta))

        if c:
            add_section("requires", c.sections.get("requires"), "requires", "requires")
        if canary:
            segs.append(("t", "    ensures\n"))
            segs.append(("c", "        false,", dict(region="canary_ensures", fn=fq)))
        elif c:
            add_section("ensures", c.sections.get("ensures"), "ensures", "ensures")
        if c:
            if "decreases" in c.raw:
                segs.append(("t", "    decreases " + c.raw["decreases"].strip() + "\n"))
            if "no_unwind" in c.flags:
                segs.append(("t", "    no_unwind\n"))
        if text[fp.body_open] == ";":
            segs.append(("t", ";\n"))
        else:
            body = text[fp.body_open:fp.body_close + 1]
            self.splice_body(it, body, c, segs, add_section, canary)
        # emit
        lo = g.cur()
        buf = ""
        for s in segs:
            if s[0] == "t":
                buf += s[1]
            else:
                if buf and not buf.endswith("\n"):
                    buf += "\n"
                if buf:
                    g.emit(buf[:-1])
                    buf = ""
                a, b = g.emit(s[1])
                meta = s[2]
                if "obl" in meta:
                    o = dict(meta["obl"]); o["lo"] = a; o["hi"] = b
                    self.obligations.append(o)
                else:
                    g.region(a, b, kind=meta["region"], fn=meta["fn"], label=meta.get("label"))
        if buf:
            g.emit(buf[:-1] if buf.endswith("\n") else buf)
        hi = g.cur() - 1
        reg = g.region(lo, hi, kind="canary" if canary else "variant" if variant else "fn", fn=fq, item=it.name, props=props,
                       file=it.file, line=it.line)
        if not canary and not variant:
            self.obligations.append(dict(id="%s::%s.safety" % (self.name, it.name), fn=it.name, kind="safety",
                                         label="safety", props=props, lo=lo, hi=hi,
                                         text="no overflow/underflow, bounds, callee preconditions, no reachable panic"))
        return reg

    def splice_body(self, it, body, c, segs, add_section, canary):
        """body includes its outer braces."""
        m = L.mask(body)
        inserts = []
        if c:
            loops = L.find_loops(m, 1, len(m) - 1)
            for k, lc in c.loops.items():
                if k > len(loops):
                    raise LostAnchor("%s: loop #%d of %s not found" % (it.file, k, it.name))
                kw_pos, kw, bo = loops[k - 1]
                inserts.append((kw_pos, "loop", lc, (kw_pos, kw, bo)))
                if "after" in lc.raw:
                    inserts.append((L.match_close(m, bo) + 1, "entry", lc.raw["after"], None))
                if "before_body_end" in lc.raw:
                    # structural position: end of the loop body (just before its closing brace)
                    inserts.append((L.match_close(m, bo), "entry", lc.raw["before_body_end"], None))
            closures = L.find_closures(m, 1, len(m) - 1)
            for k, cc in c.closures.items():
                if isinstance(k, str):
                    pat, _, nth = k.partition("#")
                    want = "".join(pat.split())
                    cands = [cl_ for cl_ in closures if "".join(body[cl_["bars"][0]:cl_["bars"][1]].split()) == want]
                    nth = int(nth) if nth else 1
                    if nth > len(cands):
                        raise LostAnchor("%s: closure `%s` of %s not found" % (it.file, k, it.name))
                    target = cands[nth - 1]
                else:
                    if k > len(closures):
                        raise LostAnchor("%s: closure #%d of %s not found" % (it.file, k, it.name))
                    target = closures[k - 1]
                inserts.append((target["bars"][0], "closure", cc, target))
            for ac in getattr(c, "after_stmts", []):
                # anchor: after EVERY statement whose text matches the regex (same hint at all of them)
                hits = []
                for k in re.finditer(ac.key, m):
                    e = k.start()
                    while e < len(m) and m[e] != ";":
                        if m[e] in "([{":
                            e = L.match_close(m, e)
                        elif m[e] in ")]}":
                            break
                        e += 1
                    if e < len(m) and m[e] == ";":
                        hits.append(e + 1)
                if not hits:
                    raise LostAnchor("%s: statement anchor /%s/ of %s not found" % (it.file, ac.key, it.name))
                for hpos in sorted(set(hits)):
                    inserts.append((hpos, "entry", ac.raw["entry"], None))
            for nm, ac in getattr(c, "before_lets", {}).items():
                # anchor: in front of the `let` statement (at any depth) whose pattern binds identifier nm
                hits = []
                for k in re.finditer(r"\blet\b", m):
                    j = k.end()
                    q = j
                    while q < len(m) and m[q] not in "=;":
                        if m[q] in "([{":
                            q = L.match_close(m, q)
                        q += 1
                    if q >= len(m) or m[q] != "=":
                        continue
                    patt = m[j:q].split(":")[0]
                    if re.search(r"\b%s\b" % re.escape(nm.split("#")[0]), patt):
                        hits.append(k.start())
                # `name#k`: the k-th `let` binding that name (same name bound in several branches)
                want = int(nm.split("#")[1]) if "#" in nm else None
                if want is None and len(hits) != 1:
                    raise LostAnchor("%s: `let %s` anchor of %s matches %d statements" % (it.file, nm, it.name, len(hits)))
                if want is not None and want > len(hits):
                    raise LostAnchor("%s: `let %s` anchor of %s: only %d such statements" % (it.file, nm, it.name, len(hits)))
                inserts.append((hits[(want or 1) - 1], "entry", ac.raw["entry"], None))
            for nm, ac in getattr(c, "after_lets", {}).items():
                # anchor: the `let` statement (at any depth) whose pattern binds identifier nm
                hits = []
                for k in re.finditer(r"\blet\b", m):
                    j = k.end()
                    # pattern up to '=' or ':' at depth 0
                    q = j
                    while q < len(m) and m[q] not in "=;":
                        if m[q] in "([{":
                            q = L.match_close(m, q)
                        q += 1
                    if q >= len(m) or m[q] != "=":
                        continue
                    patt = m[j:q].split(":")[0]
                    if not re.search(r"\b%s\b" % re.escape(nm), patt):
                        continue
                    if "type" in ac.raw and ":" not in m[j:q]:
                        # type ascription on the binding (inference-neutral: it is the inferred type or a compile error)
                        inserts.append((j + len(m[j:q].rstrip()), "entry_inline", ": " + ac.raw["type"] + " ", None))
                    # end of statement: ';' at depth 0 (let-else blocks are braces → skipped by matching)
                    e = q
                    while e < len(m) and m[e] != ";":
                        if m[e] in "([{":
                            e = L.match_close(m, e)
                        e += 1
                    hits.append(e + 1)
                if len(hits) != 1:
                    raise LostAnchor("%s: `let %s` anchor of %s matches %d statements" % (it.file, nm, it.name, len(hits)))
                inserts.append((hits[0], "entry", ac.raw["entry"], None))
            if getattr(c, "awaits", None) or getattr(c, "awaits_matching", None):
                # R9c: the await points of the function (markers left by the await erasure); cancellation-point obligations
                # are spliced in front of the statement that contains the await (innermost enclosing block).
                #   @await all            clauses checked at EVERY await point
                #   @await k              clauses checked at the k-th await point
                #   @await_matching RX    clauses checked at every await point whose statement matches RX (e.g. calls with a
                #                         durable effect: the clause talks about the state the effect would make durable)
                marks = [k.start() for k in re.finditer(re.escape(R.AWAIT_MARK), body)]
                awaits = getattr(c, "awaits", {})
                per_stmt = {}
                for idx, p in enumerate(marks, 1):
                    blocks = L.enclosing_blocks(m, p)
                    bo_ = blocks[-1][0] if blocks else 0
                    bc_ = L.match_close(m, bo_)
                    st = [s_ for s_ in R._split_stmts(body, m, bo_ + 1, bc_) if s_[0] <= p < s_[1]]
                    if not st:
                        raise LostAnchor("%s: statement of await point #%d of %s not found" % (it.file, idx, it.name))
                    # text of the awaited expression: from the statement start up to the marker
                    head = m[st[0][0]:p]
                    cls = []
                    if "all" in awaits:
                        cls += [(cl, "point") for cl in awaits["all"].sections.get("cancel_safe", [])]
                    if idx in awaits:
                        cls += [(cl, "point") for cl in awaits[idx].sections.get("cancel_safe", [])]
                    for am in getattr(c, "awaits_matching", []):
                        if re.search(am.key, head):
                            cls += [(cl, "effect") for cl in am.sections.get("cancel_safe", [])]
                    # callee awaited at this point (last method/function name before the marker): part of the obligation name, so
                    # that a known finding about one awaited call does not cover a different call at the same ordinal
                    cm = re.findall(r"([A-Za-z_][A-Za-z0-9_]*)\s*\(", m[st[0][0]:p])
                    callee = cm[-1] if cm else "expr"
                    if cls:
                        per_stmt.setdefault(st[0][0], []).append(("%d@%s" % (idx, callee), cls))
                for k in awaits:
                    if k != "all" and k > len(marks):
                        raise LostAnchor("%s: await point #%d of %s not found" % (it.file, k, it.name))
                for am in getattr(c, "awaits_matching", []):
                    if not any(re.search(am.key, m[max(0, p - 400):p]) for p in marks):
                        raise LostAnchor("%s: no await point of %s matches /%s/" % (it.file, it.name, am.key))
                for pos_, lst in per_stmt.items():
                    inserts.append((pos_, "await", lst, None))
            if "entry" in c.raw:
                inserts.append((1, "entry", c.raw["entry"], None))
            if "before_tail" in c.raw:
                # immediately before the tail expression (last statement without `;`) of the function body
                st = R._split_stmts(body, m, 1, len(body) - 1)
                if not st:
                    raise LostAnchor("%s: %s has no tail expression" % (it.file, it.name))
                inserts.append((st[-1][0], "entry", c.raw["before_tail"], None))
            if "before_body_end" in c.raw:
                inserts.append((len(body) - 1, "entry", c.raw["before_body_end"], None))
        inserts.sort(key=lambda x: x[0])
        # nested inserts (closure inside loop header etc.) are not supported: check disjointness
        pos = 0
        for p, kind, payload, extra in inserts:
            if p < pos:
                raise UnitError("overlapping splice positions in %s" % it.name)
            if kind == "entry_inline":
                segs.append(("t", body[pos:p] + payload))
                pos = p
            elif kind == "entry":
                segs.append(("t", body[pos:p] + "\n" + payload.strip() + "\n"))
                pos = p
            elif kind == "await":
                # cancellation-point obligation: one named assertion per clause, in front of the awaiting statement
                segs.append(("t", body[pos:p] + "\nproof {\n"))
                props = (c.props if c and c.props else it.opts.get("props", self.props))
                for (idx, clauses) in payload:
                    for (cl, ckind) in clauses:
                        var = getattr(self, "_variant", None)
                        if ckind == "effect" and var != "effects":
                            continue      # after-effect obligations live in the `__effects` twin (a failed assertion is assumed afterwards)
                        if canary or (var == "effects" and ckind != "effect"):
                            segs.append(("t", "    assert(" + cl.text.strip() + ");\n"))
                        else:
                            segs.append(("c", "    assert(" + cl.text.strip() + ");",
                                         dict(obl=dict(id="%s::%s.await%s#%s" % (self.name, it.name, idx, cl.label), fn=it.name,
                                                       kind="cancel_point", label=cl.label, props=cl.props or props, text=cl.text.strip()))))
                segs.append(("t", "}\n"))
                pos = p
            elif kind == "loop":
                kw_pos, kw, bo = extra
                segs.append(("t", body[pos:kw_pos]))
                if "before" in payload.raw:
                    segs.append(("t", "\n" + payload.raw["before"].strip() + "\n"))
                seg = body[kw_pos:bo]
                if "iter" in payload.raw and kw == "for":
                    ms = L.mask(seg)
                    idx = None
                    j = 3
                    while j < len(ms):
                        ch = ms[j]
                        if ch in "([{":
                            j = L.match_close(ms, j)
                        elif ms[j - 1].isspace() and re.match(r"in\b", ms[j:]):
                            idx = j
                            break
                        j += 1
                    if idx is None:
                        raise UnitError("cannot find `in` of for loop in %s" % it.name)
                    seg = seg[:idx + 2] + " " + payload.raw["iter"].strip() + ":" + seg[idx + 2:]
                segs.append(("t", seg.rstrip() + "\n"))
                for sec in ("invariant_except_break", "invariant", "ensures_loop"):
                    add_section("ensures" if sec == "ensures_loop" else sec, payload.sections.get(sec), "invariant",
                                "loop%d.%s" % (payload.key, sec), indent="            ")
                if "decreases" in payload.raw:
                    segs.append(("t", "            decreases " + payload.raw["decreases"].strip() + "\n"))
                segs.append(("t", "        "))
                pos = bo
                if "body_entry" in payload.raw:
                    segs.append(("t", "{\n" + payload.raw["body_entry"].strip() + "\n"))
                    pos = bo + 1
            elif kind == "closure":
                cl = extra
                segs.append(("t", body[pos:cl["bars"][0]]))
                hdr = payload.raw.get("header", "").strip()
                if not hdr:
                    raise UnitError("closure contract without header in %s" % it.name)
                segs.append(("t", hdr + "\n"))
                add_section("requires", payload.sections.get("requires"), "requires",
                            "closure%s.requires" % payload.key, indent="            ")
                add_section("ensures", payload.sections.get("ensures"), "ensures",
                            "closure%s.ensures" % payload.key, indent="            ")
                bs, be = cl["body"]
                inner = body[bs:be]
                segs.append(("t", "        " + (inner if cl["braced"] else "{ " + inner + " }")))
                pos = be
        segs.append(("t", body[pos:] + "\n"))

    # ---- whole file ----
    def generate(self):
        self.extract()
        g = Gen()
        feats = self.cfg.get("features", [])
        for f in feats:
            g.emit("#![feature(%s)]" % f)
        g.emit("#![allow(unused_imports, unused_variables, dead_code, unused_mut, unreachable_code, unused_parens, unused_braces, non_snake_case)]")
        g.emit("use vstd::prelude::*;")
        for u in self.cfg.get("uses", []):
            g.emit("use %s;" % u)
        g.emit("verus! {")
        pre = os.path.join(self.dir, "prelude.rs")
        pretxt = ""
        for inc in self.cfg.get("includes", []):
            pretxt += open(os.path.join(VERIF, "units", inc)).read() + "\n"
        if os.path.exists(pre):
            pretxt += open(pre).read()
        if pretxt:
            # Verus allows one module-level `broadcast use` per module: merge those of all prelude pieces
            names = []
            def _bu(mo):
                for n in mo.group(1).replace("{", "").replace("}", "").split(","):
                    n = n.strip()
                    if n and n not in names:
                        names.append(n)
                return ""
            pretxt = re.sub(r"(?ms)^broadcast use\s+([^;]*);[ \t]*\n", _bu, pretxt)
            if names:
                pretxt += "\nbroadcast use {%s};\n" % ", ".join(names)
            base = g.cur() + 1
            lo, hi = g.emit("// ---- prelude (shims, spec functions, assumed contracts) ----\n" + pretxt)
            g.region(lo, hi, kind="prelude")
            # proof/exec fns of the prelude that carry an `//@ obligation` marker are obligations too
            self._index_lemmas(pretxt, base, g, only_marked=True)
        g.emit("// ---- extracted from /repo (mechanical; see unit.toml) ----")
        want_canary = self.cfg.get("canaries", True)
        for it in self.items:
            try:
                if it.kind == "closure":
                    # R19: closure lifted to a named function with the declared signature; body verbatim
                    sig = it.opts.get("sig")
                    if not sig:
                        raise UnitError("closure item %s needs `sig`" % it.name)
                    tail = it.opts.get("tail")
                    if tail:
                        # match-arm lifting: the arm falls through to the code after the `match`; `tail` is that code
                        # (declared in unit.toml, checked against the source by the `after_match` anchor below)
                        it.text = sig.strip() + " { " + it.text + "\n" + tail.strip() + "\n}"
                    else:
                        it.text = sig.strip() + " " + it.text
                    it.kind = "fn"
                    self._count("R19", 1)
                t = self.rewrite(it)
                it.final = t
                it.sha = hashlib.sha256(it.text.encode()).hexdigest()
                if it.kind in ("fn", "method"):
                    c = self.contracts.get(it.name)
                    twins = [False]
                    if want_canary and c is not None and "no_canary" not in c.flags and not it.opts.get("no_canary") \
                            and not (it.opts.get("impl_header", it.impl_header) and re.search(r"\bfor\b", L.mask(it.opts.get("impl_header", it.impl_header)))):
                        twins.append(True)
                    if c is not None and getattr(c, "awaits_matching", None):
                        twins.append("effects")
                    for canary in twins:
                        if it.kind == "method":
                            hdr = it.opts.get("impl_header", it.impl_header)
                            hdr, n = R.r1_strip_attrs_comments(hdr)
                            for sub in self.cfg.get("subst", []):
                                if "only" in sub:
                                    continue
                                hdr = re.sub(sub["pattern"], sub["replace"], hdr)
                            g.emit(hdr + " {")
                        self.splice_fn(it, t, g, canary)
                        if it.kind == "method":
                            g.emit("}")
                    self.functions.append(dict(name=it.name, repo_file=it.file, line=it.line,
                                               sha256_of_extracted_text=it.sha, contracted=c is not None,
                                               canary=True in twins))
                else:
                    # verifier-only attributes (no run-time meaning), e.g. reject_recursive_types
                    for a in it.opts.get("attrs", []):
                        t = a + "\n" + t.lstrip()
                    # R14: ghost fields appended to an extracted struct (erased at run time)
                    gf = it.opts.get("ghost_fields", [])
                    if gf:
                        mt = L.mask(t)
                        bo = mt.index("{")
                        bc = L.match_close(mt, bo)
                        t = t[:bc].rstrip().rstrip(",") + ",\n    " + ",\n    ".join(gf) + ",\n" + t[bc:]
                        self._count("R14", len(gf))
                    lo, hi = g.emit(t)
                    g.region(lo, hi, kind="decl", item=it.name, file=it.file, line=it.line)
            except (LostAnchor, L.LexError) as e:
                self.lost.append(str(e))
        lem = os.path.join(self.dir, "lemmas.rs")
        if os.path.exists(lem):
            txt = open(lem).read()
            base = g.cur() + 1
            lo, hi = g.emit("// ---- lemmas (property-level corollaries) ----\n" + txt)
            g.region(lo, hi, kind="lemmas")
            self._index_lemmas(txt, base, g)
        g.emit("} // verus!\nfn main() {}")
        # contracts referring to functions that were not extracted
        names = {it.name for it in self.items}
        for k in self.contracts:
            if k not in names:
                self.lost.append("contract for `%s` has no extracted function" % k)
        self.gen = g
        return g

    def _index_lemmas(self, txt, base, g, only_marked=False):
        m = L.mask(txt)
        pend_props = None
        pend_name = None
        # markers: //@ obligation [name] props=C06,C07
        lines = txt.split("\n")
        markers = {}
        for i, l in enumerate(lines):
            mm = re.match(r"\s*//@\s*obligation(?:\s+name=(\S+))?(?:\s+props=(\S+))?", l)
            if mm:
                markers[i] = (mm.group(1), mm.group(2).split(",") if mm.group(2) else None)
        for k in re.finditer(r"\b(proof\s+fn|fn)\s+([A-Za-z_][A-Za-z0-9_]*)", m):
            pos = k.start()
            pre = m[:pos]
            # skip spec fns and nested
            st = L.item_start(m, pos)
            headtxt = m[st:pos]
            if re.search(r"\bspec\b", headtxt):
                continue
            if L.enclosing_blocks(m, pos):
                blocks = L.enclosing_blocks(m, pos)
                if not all(re.search(r"\b(impl|mod|trait)\b", h) for _, h in blocks):
                    continue
            try:
                bo = L.fn_body_open(m, m.index("fn", pos))
            except L.LexError:
                continue
            if m[bo] != "{":
                continue
            bc = L.match_close(m, bo)
            lo = base + txt.count("\n", 0, st)
            # skip blank lines at start
            hi = base + txt.count("\n", 0, bc)
            ln = txt.count("\n", 0, pos)
            props = None
            name = k.group(2)
            marked = False
            for back in range(ln, max(-1, ln - 6), -1):
                if back in markers:
                    nm, pp = markers[back]
                    props = pp
                    marked = True
                    break
            if only_marked and not marked:
                continue
            g.region(lo, hi, kind="lemma", fn=name, props=props or self.props)
            self.obligations.append(dict(id="%s::lemma.%s" % (self.name, name), fn=name, kind="lemma", label=name,
                                         props=props or self.props, lo=lo, hi=hi, text="lemma " + name))
