"""Mutation self-test: semantic mutants applied to the *extracted text in memory*
(never to /repo).  Every mutant that still compiles should fail at least one
obligation; survivors are reported in the evidence file (they are not a verdict)."""
import concurrent.futures as cf
import os
import random
import re

from . import rustlex as L
from . import run as VR
from .unit import Unit, VERIF

OPS = [
    (r"(?<=\s)<=(?=\s)", "<"), (r"(?<=\s)<(?=\s)", "<="), (r"(?<=\s)>=(?=\s)", ">"), (r"(?<=\s)>(?=\s)", ">="),
    (r"(?<=\s)==(?=\s)", "!="), (r"(?<=\s)!=(?=\s)", "=="), (r"(?<=\s)<(?=\s)", ">"), (r"(?<=\s)>(?=\s)", "<"),
    (r"&&", "||"), (r"\|\|(?=\s*[A-Za-z!(])", "&&"),
    (r"(?<=\s)\+ 1\b", "+ 2"), (r"(?<=\s)\+ 1\b", "+ 0"), (r"(?<=\s)- 1\b", "- 0"), (r"(?<=\s)\+=(?=\s)", "-="),
    (r"\btrue\b", "false"), (r"\bfalse\b", "true"),
    (r"\bif !", "if "), (r"\bif (?=[a-z_(])", "if !"),
    (r"\bSome\(([a-z_]+)\)(?=\s*=>\s)", None),  # placeholder (skipped)
    (r"\.is_some\(\)", ".is_none()"), (r"\.is_none\(\)", ".is_some()"),
    (r"\.is_empty\(\)", ".is_empty() == false"),
    (r"\bOk\(true\)", "Ok(false)"), (r"\bOk\(false\)", "Ok(true)"),
    (r"\bOrdering::Less\b", "Ordering::Greater"), (r"\bOrdering::Greater\b", "Ordering::Less"),
    (r"\bPoll::Pending\b(?!\s*=>)", "Poll::Ready(None)"),
    (r"\.pop_front\(\)", ".pop_back()"), (r"\.push_back\(", ".push_front("),
    (r"\bmax\(", "min("), (r"\bmin\(", "max("),
    (r"\.saturating_add\(", ".saturating_sub("), (r"\.saturating_sub\(", ".saturating_add("),
]


def body_span(text):
    fp = L.FnParts(text)
    return fp.body_open, fp.body_close


def gen_mutants(text):
    """Yield (description, mutated_text)."""
    try:
        bo, bc = body_span(text)
    except L.LexError:
        return
    m = L.mask(text)
    seen = set()
    for pat, rep in OPS:
        if rep is None:
            continue
        for k in re.finditer(pat, m[bo:bc]):
            a, b = bo + k.start(), bo + k.end()
            new = text[:a] + rep + text[b:]
            if new in seen:
                continue
            seen.add(new)
            line = text.count("\n", 0, a) + 1
            yield ("line %d: `%s` -> `%s`" % (line, text[a:b], rep), new)
    # drop early returns: `return EXPR;` -> `{}` ;  drop `?`-less statement calls
    for k in re.finditer(r"\breturn\b[^;]*;", m[bo:bc]):
        a, b = bo + k.start(), bo + k.end()
        new = text[:a] + "{}" + text[b:]
        line = text.count("\n", 0, a) + 1
        yield ("line %d: drop `%s`" % (line, " ".join(text[a:b].split())[:60]), new)
    # drop expression statements that are method calls on self / locals (side effects)
    for k in re.finditer(r"(?<=[;{}]\n)([ \t]+)((?:self|[a-z_]+)(?:\.[a-z_0-9]+)+\([^;{}]*\)(?:\.await)?(?:\?)?;)", m[bo:bc]):
        a, b = bo + k.start(2), bo + k.end(2)
        new = text[:a] + text[b:]
        line = text.count("\n", 0, a) + 1
        yield ("line %d: drop statement `%s`" % (line, " ".join(text[a:b].split())[:60]), new)


def _one(args):
    uname, item, desc, new, prop, idx = args
    u = Unit(uname)
    u.override = {item: new}
    u.cfg["canaries"] = False
    g = u.generate()
    d = os.path.join(VERIF, ".cache", "mut")
    os.makedirs(d, exist_ok=True)
    path = os.path.join(d, "%s_%s_%d.rs" % (uname, prop, idx))
    open(path, "w").write(g.text())
    vr = VR.run_verus(path, rlimit=u.cfg.get("rlimit"), threads=2, timeout=300, use_cache=False)
    cl = VR.classify(u, vr)
    try:
        os.unlink(path)
    except OSError:
        pass
    if cl["machinery"] or vr["result"] is None or u.lost:
        return dict(item=item, mutant=desc, status="invalid", detail=(cl["machinery"] + u.lost)[:1])
    if cl["undecided"] or vr["timed_out"]:
        return dict(item=item, mutant=desc, status="undecided")
    ids = sorted(cl["failed"])
    if ids:
        return dict(item=item, mutant=desc, status="killed", by=ids[:3])
    return dict(item=item, mutant=desc, status="survived")


def run_mutants(u: Unit, prop, limit=400, seed=None):
    equivalent = {(e["item"], e["mutant"]): e.get("why", "") for e in u.cfg.get("equivalent_mutants", [])}
    jobs = []
    for it in u.items:
        if it.kind not in ("fn", "method") or it.name not in u.contracts:
            continue
        c = u.contracts[it.name]
        props = c.props or u.props
        tagged = prop in props or any(prop in (cl.props or []) for sec in c.sections.values() for cl in sec)
        if not tagged:
            continue
        for desc, new in gen_mutants(it.final):
            jobs.append((u.name, it.name, desc, new, prop, len(jobs)))
    total = len(jobs)
    if seed is not None or len(jobs) > limit:
        rnd = random.Random(seed or 0)
        rnd.shuffle(jobs)
        jobs = jobs[:limit]
    res = []
    if jobs:
        with cf.ProcessPoolExecutor(max_workers=8) as ex:
            res = list(ex.map(_one, jobs))
    for r in res:
        if r["status"] == "survived" and (r["item"], r["mutant"]) in equivalent:
            r["status"] = "equivalent"
            r["why"] = equivalent[(r["item"], r["mutant"])]
    summ = dict(unit=u.name, generated=total, applied=len(jobs),
                killed=sum(r["status"] == "killed" for r in res),
                invalid=sum(r["status"] == "invalid" for r in res),
                equivalent=sum(r["status"] == "equivalent" for r in res),
                undecided=sum(r["status"] == "undecided" for r in res),
                survived=[r for r in res if r["status"] == "survived"],
                sample_killed=[r for r in res if r["status"] == "killed"][:5])
    return summ
