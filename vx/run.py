"""Run Verus on a generated unit file, map diagnostics back to obligations."""
import hashlib
import json
import os
import re
import subprocess
import time

from .unit import Unit, UnitError, VERIF

CACHE = os.path.join(VERIF, ".cache")

VERIF_FAIL_MSGS = (
    "postcondition not satisfied",
    "precondition not satisfied",
    "invariant not satisfied",
    "possible arithmetic underflow/overflow",
    "assertion failed",
    "possible division by zero",
    "possible bit shift underflow/overflow",
    "loop invariant",
    "decreases not satisfied",
    "could not prove termination",
    "unreachable_unchecked",
    "recommendation not met",
    "assert_by",
    "cannot show invariant",
    "failed this",
    "constructed value may fail to meet its declared type invariant",
    "index out of bounds",
    "possible division by zero",
    "may fail to meet",
)
UNDECIDED_MSGS = ("rlimit", "resource limit", "timed out", "out of memory")

SCAN_PATTERNS = [r"\bassume\s*\(", r"\badmit\s*\(", r"external_body", r"assume_specification",
                 r"#\[verifier::external", r"\buninterp\b", r"exec_allows_no_decreases_clause",
                 r"external_type_specification", r"external_trait_specification"]


def verus_cmd(path, rlimit=None, seed=None, extra=(), threads=8):
    cmd = ["verus", "--edition", "2024", "--output-json", "--time", "--multiple-errors", "40",
           "--triggers-mode", "silent", "--error-format=json", "--num-threads", str(threads)]
    if rlimit:
        cmd += ["--rlimit", str(rlimit)]
    if seed is not None:
        cmd += ["--smt-option", "smt.random_seed=%d" % seed, "--smt-option", "sat.random_seed=%d" % seed]
    cmd += list(extra)
    cmd.append(path)
    return cmd


def run_verus(path, rlimit=None, seed=None, extra=(), timeout=900, use_cache=True, threads=8):
    path = os.path.abspath(path)
    txt = open(path, "rb").read()
    cmd = verus_cmd(path, rlimit, seed, extra, threads)
    key = hashlib.sha256(txt + b"\0" + " ".join(cmd[:-1]).encode()).hexdigest()
    cdir = os.path.join(CACHE, "verus")
    os.makedirs(cdir, exist_ok=True)
    cp = os.path.join(cdir, key + ".json")
    if use_cache and os.environ.get("VX_NO_CACHE") != "1" and os.path.exists(cp):
        try:
            d = json.load(open(cp))
            d["cache_hit"] = True
            return d
        except Exception:
            pass
    t0 = time.time()
    env = dict(os.environ)
    try:
        p = subprocess.run(cmd, capture_output=True, text=True, timeout=timeout, cwd=os.path.dirname(path), env=env)
        out, err, rc = p.stdout, p.stderr, p.returncode
        timed_out = False
    except subprocess.TimeoutExpired as e:
        out, err, rc, timed_out = (e.stdout or b"").decode() if isinstance(e.stdout, bytes) else (e.stdout or ""), \
            (e.stderr or b"").decode() if isinstance(e.stderr, bytes) else (e.stderr or ""), -9, True
    wall = time.time() - t0
    res = None
    try:
        res = json.loads(out)
    except Exception:
        pass
    diags = []
    other = []
    for line in err.splitlines():
        line = line.strip()
        if line.startswith("{"):
            try:
                d = json.loads(line)
                if d.get("$message_type") == "diagnostic":
                    diags.append(d)
                    continue
            except Exception:
                pass
        if line:
            other.append(line)
    d = dict(cmd=" ".join(cmd), rc=rc, wall_s=wall, result=res, diags=diags, stderr_other=other[:50],
             timed_out=timed_out, cache_hit=False)
    if not timed_out:
        json.dump(d, open(cp, "w"))
    return d


def classify(unit: Unit, vr):
    """Map diagnostics to obligations.  Returns dict with keys:
       failed: {obl_id: [diag summaries]}, canary_failed: set(fn), machinery: [msgs], undecided: [msgs]"""
    g = unit.gen
    fn_regions = [r for r in g.regions if r["kind"] in ("fn", "canary", "lemma", "variant")]
    clause_obl = [o for o in unit.obligations if o["kind"] in ("ensures", "invariant", "cancel_point")]
    failed = {}
    canary_failed = set()
    machinery = []
    undecided = []
    warnings = []

    def enclosing(line):
        best = None
        for r in fn_regions:
            if r["lo"] <= line <= r["hi"]:
                if best is None or (r["hi"] - r["lo"]) < (best["hi"] - best["lo"]):
                    best = r
        return best

    for d in vr["diags"]:
        lvl = d.get("level")
        msg = d.get("message", "")
        if lvl == "warning" or lvl == "note" or lvl == "help":
            continue
        if lvl == "error" and msg.startswith("aborting due to"):
            continue
        spans = []
        for s_ in d.get("spans", []):
            # a span inside a macro expansion (panic!, unimplemented!, vec!): use the call site in the generated file
            t_ = s_
            while t_.get("expansion") and t_["expansion"].get("span"):
                t_ = t_["expansion"]["span"]
            if t_ is not s_:
                s_ = dict(s_); s_["line_start"] = t_.get("line_start", s_.get("line_start")); s_["text"] = t_.get("text", s_.get("text"))
            spans.append(s_)
        prim = [s for s in spans if s.get("is_primary")]
        low = msg.lower()
        if any(u in low for u in UNDECIDED_MSGS):
            undecided.append(msg)
            continue
        is_vf = any(v in low for v in VERIF_FAIL_MSGS)
        if not is_vf:
            machinery.append("%s @ gen line %s" % (msg, prim[0]["line_start"] if prim else "?"))
            continue
        # locate: clause span (postcondition/invariant) and function span
        summary = dict(message=msg, spans=[dict(line=s["line_start"], label=s.get("label"),
                                                text=(s.get("text") or [{}])[0].get("text", "").strip())
                                           for s in spans])
        hit_clause = None
        for s in spans:
            for o in clause_obl:
                if o["lo"] <= s["line_start"] <= o["hi"]:
                    hit_clause = o
        # function: any span inside a fn region
        fn_reg = None
        for s in spans:
            r = enclosing(s["line_start"])
            if r is not None:
                fn_reg = r
                if s.get("is_primary") and r["kind"] != "lemma":
                    pass
        # prefer region that contains a non-clause span (body) – for pre/postconditions the body span
        for s in spans:
            r = enclosing(s["line_start"])
            if r is not None and not any(o["lo"] <= s["line_start"] <= o["hi"] for o in clause_obl):
                fn_reg = r
        if fn_reg is None:
            machinery.append("verification failure outside any extracted function/lemma: %s (gen line %s)" %
                             (msg, prim[0]["line_start"] if prim else "?"))
            continue
        if fn_reg["kind"] == "canary":
            canary_failed.add(fn_reg["fn"])
            continue
        if fn_reg["kind"] == "variant":
            # twin carrying only selected obligations: everything else in it duplicates the main copy
            if hit_clause is not None and hit_clause["fn"] == fn_reg.get("item") and hit_clause["kind"] == "cancel_point" and "assertion" in low:
                failed.setdefault(hit_clause["id"], []).append(summary)
            continue
        if fn_reg["kind"] == "lemma":
            oid = "%s::lemma.%s" % (unit.name, fn_reg["fn"])
            failed.setdefault(oid, []).append(summary)
            continue
        if hit_clause is not None and hit_clause["fn"] == fn_reg.get("item") and ("postcondition" in low or "invariant" in low or (hit_clause["kind"] == "cancel_point" and "assertion" in low)):
            failed.setdefault(hit_clause["id"], []).append(summary)
        else:
            oid = "%s::%s.safety" % (unit.name, fn_reg["item"])
            failed.setdefault(oid, []).append(summary)
    return dict(failed=failed, canary_failed=canary_failed, machinery=machinery, undecided=undecided)


def scan_assumptions(unit: Unit):
    """Mechanical scan of the generated file for trusted constructs; assume/admit outside the prelude is an error."""
    g = unit.gen
    pre = [r for r in g.regions if r["kind"] == "prelude"]
    found = []
    bad = []
    for i, l in enumerate(g.lines, 1):
        code = l.split("//")[0]
        for pat in SCAN_PATTERNS:
            if re.search(pat, code):
                inpre = any(r["lo"] <= i <= r["hi"] for r in pre)
                found.append(dict(line=i, what=pat.replace("\\b", "").replace("\\s*\\(", "(").replace("\\", ""), text=l.strip()[:160],
                                  in_prelude=inpre))
                if ("assume\\s*\\(" in pat or "admit" in pat) and not inpre:
                    bad.append("line %d: %s" % (i, l.strip()))
    return found, bad


def func_times(vr):
    res = {}
    try:
        for mt in vr["result"]["times-ms"]["smt"]["smt-run-module-times"]:
            for f in mt.get("function-breakdown", []):
                res[f["function"]] = dict(us=f.get("time-micros"), rlimit=f.get("rlimit"), success=f.get("success"))
    except Exception:
        pass
    return res
