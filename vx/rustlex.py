"""Minimal Rust lexical helpers: masking of comments/strings, bracket matching,
item location.  Pure text processing, stdlib only.

The *mask* of a source text is a string of identical length in which the
contents of comments, string literals, raw strings, byte strings and char
literals are replaced by spaces (newlines kept).  Structural searches are done
on the mask, copies are taken from the original text.
"""
import re


class LexError(Exception):
    pass


def mask(src: str) -> str:
    out = list(src)
    i, n = 0, len(src)

    def blank(a, b):
        for k in range(a, b):
            if out[k] != "\n":
                out[k] = " "

    while i < n:
        c = src[i]
        if c == "/" and i + 1 < n and src[i + 1] == "/":
            j = src.find("\n", i)
            if j < 0:
                j = n
            blank(i, j)
            i = j
        elif c == "/" and i + 1 < n and src[i + 1] == "*":
            depth, j = 1, i + 2
            while j < n and depth > 0:
                if src.startswith("/*", j):
                    depth += 1
                    j += 2
                elif src.startswith("*/", j):
                    depth -= 1
                    j += 2
                else:
                    j += 1
            blank(i, j)
            i = j
        elif c == '"' or (c == "b" and i + 1 < n and src[i + 1] == '"' and not _ident_before(src, i)):
            s = i if c == '"' else i + 1
            j = s + 1
            while j < n and src[j] != '"':
                j += 2 if src[j] == "\\" else 1
            blank(s + 1, min(j, n))
            i = j + 1
        elif (c == "r" or (c == "b" and i + 1 < n and src[i + 1] == "r")) and not _ident_before(src, i):
            m = re.match(r'b?r(#*)"', src[i:])
            if m:
                closer = '"' + m.group(1)
                j = src.find(closer, i + m.end())
                if j < 0:
                    raise LexError("unterminated raw string")
                blank(i + m.end(), j)
                i = j + len(closer)
            else:
                i += 1
        elif c == "'":
            m = re.match(r"'(\\x[0-9a-fA-F]{2}|\\u\{[0-9a-fA-F_]+\}|\\.|[^\\'\n])'", src[i:])
            if m:
                blank(i + 1, i + m.end() - 1)
                i += m.end()
            else:
                i += 1  # lifetime
        else:
            i += 1
    return "".join(out)


def _ident_before(src, i):
    return i > 0 and (src[i - 1].isalnum() or src[i - 1] == "_")


OPEN = {"(": ")", "[": "]", "{": "}"}
CLOSE = {v: k for k, v in OPEN.items()}


def match_close(m: str, i: int) -> int:
    """m[i] is an opening bracket; return index of its matching closer."""
    assert m[i] in OPEN, (m[i], i)
    stack = []
    n = len(m)
    j = i
    while j < n:
        c = m[j]
        if c in OPEN:
            stack.append(c)
        elif c in CLOSE:
            if not stack or stack[-1] != CLOSE[c]:
                raise LexError("unbalanced bracket at %d" % j)
            stack.pop()
            if not stack:
                return j
        j += 1
    raise LexError("no closing bracket for %d" % i)


def match_angle(m: str, i: int) -> int:
    """m[i] == '<' opening a generic list; return index of matching '>'."""
    assert m[i] == "<"
    depth = 0
    j = i
    n = len(m)
    while j < n:
        c = m[j]
        if c == "<":
            depth += 1
        elif c == ">":
            if j > 0 and m[j - 1] == "-":
                pass  # '->'
            else:
                depth -= 1
                if depth == 0:
                    return j
        elif c in "([{":
            j = match_close(m, j)
        j += 1
    raise LexError("no closing angle for %d" % i)


def skip_ws(m, i):
    while i < len(m) and m[i].isspace():
        i += 1
    return i


def enclosing_blocks(m: str, pos: int):
    """List of (open_idx, header_text_from_mask) for brace blocks enclosing pos, outermost first."""
    stack = []
    i = 0
    while i < pos:
        c = m[i]
        if c == "{":
            stack.append(i)
        elif c == "}":
            if stack:
                stack.pop()
        i += 1
    res = []
    for o in stack:
        res.append((o, block_header(m, o)))
    return res


def block_header(m: str, o: int) -> str:
    """Text (mask) preceding the '{' at o back to the previous ';', '{' or '}' at the same level."""
    j = o - 1
    depth = 0
    while j >= 0:
        c = m[j]
        if c in ")]":
            depth += 1
        elif c in "([":
            depth -= 1
        elif depth == 0 and c in ";{}":
            break
        j -= 1
    return m[j + 1:o]


def item_start(m: str, kw_pos: int) -> int:
    """Start of the item whose keyword (fn/struct/…) is at kw_pos: just after the
    previous ';', '{' or '}' at the same nesting level (attributes and doc comments
    in between belong to the item)."""
    j = kw_pos - 1
    depth = 0
    while j >= 0:
        c = m[j]
        if c in ")]":
            depth += 1
        elif c in "([":
            depth -= 1
        elif depth == 0 and c in ";{}":
            break
        j -= 1
    return j + 1


def in_test_mod(m: str, pos: int) -> bool:
    for _, h in enclosing_blocks(m, pos):
        if re.search(r"\bmod\s+tests?\b", h):
            return True
    return False


def fn_body_open(m: str, fn_kw: int) -> int:
    """Index of the '{' opening the body of the fn whose 'fn' keyword is at fn_kw
    (or index of ';' for a bodiless declaration)."""
    i = fn_kw + 2
    i = skip_ws(m, i)
    mm = re.match(r"[A-Za-z_][A-Za-z0-9_]*", m[i:])
    if not mm:
        raise LexError("fn without name at %d" % fn_kw)
    i += mm.end()
    i = skip_ws(m, i)
    if m[i] == "<":
        i = match_angle(m, i) + 1
        i = skip_ws(m, i)
    if m[i] != "(":
        raise LexError("fn params not found at %d" % i)
    i = match_close(m, i) + 1
    # return type / where clause: scan to first '{' or ';' at depth 0
    while i < len(m):
        c = m[i]
        if c in "([":
            i = match_close(m, i)
        elif c == "<":
            try:
                i = match_angle(m, i)
            except LexError:
                pass
        elif c == "{" or c == ";":
            return i
        i += 1
    raise LexError("fn body not found")


class FnParts:
    """Decomposition of a fn item text (with its own mask)."""

    def __init__(self, text: str):
        self.text = text
        m = mask(text)
        self.m = m
        k = re.search(r"\bfn\s+([A-Za-z_][A-Za-z0-9_]*)", m)
        if not k:
            raise LexError("not a fn item")
        self.fn_kw = k.start()
        self.name = k.group(1)
        self.name_span = (k.start(1), k.end(1))
        i = skip_ws(m, k.end())
        if m[i] == "<":
            i = match_angle(m, i) + 1
            i = skip_ws(m, i)
        self.params_open = i
        self.params_close = match_close(m, i)
        self.body_open = fn_body_open(m, self.fn_kw)
        self.body_close = match_close(m, self.body_open) if m[self.body_open] == "{" else self.body_open
        # return type
        seg = m[self.params_close + 1:self.body_open]
        arrow = seg.find("->")
        self.ret_span = None
        self.where_pos = None
        w = re.search(r"\bwhere\b", seg)
        if w:
            self.where_pos = self.params_close + 1 + w.start()
        if arrow >= 0 and (not w or arrow < w.start()):
            a = self.params_close + 1 + arrow + 2
            b = self.where_pos if self.where_pos is not None else self.body_open
            self.ret_span = (a, b)


def find_loops(m: str, lo: int, hi: int):
    """Loop keywords (for/while/loop) in m[lo:hi] in textual order, with the index of the
    '{' opening the loop body.  Returns list of (kw_pos, kw, body_open)."""
    res = []
    for k in re.finditer(r"\b(for|while|loop)\b", m[lo:hi]):
        pos = lo + k.start()
        kw = k.group(1)
        after = skip_ws(m, lo + k.end())
        if kw == "for" and m[after] == "<":
            continue  # for<'a>
        # 'impl X for Y' cannot occur inside a fn body at expression level except nested items; skip if preceded by 'impl' on same stmt
        j = after
        while j < hi:
            c = m[j]
            if c in "([":
                j = match_close(m, j)
            elif c == "{":
                break
            elif c == ";":
                j = -1
                break
            j += 1
        if j < 0 or j >= hi:
            continue
        res.append((pos, kw, j))
    return res


def find_closures(m: str, lo: int, hi: int):
    """Closure expressions in m[lo:hi]; returns list of dicts with
    start (of 'move' or first '|'), params (span incl. bars), body (span), braced(bool)."""
    res = []
    i = lo
    while i < hi:
        if m[i] == "|":
            # previous significant char
            j = i - 1
            while j >= lo and m[j].isspace():
                j -= 1
            prev = m[j] if j >= lo else "{"
            is_closure = prev in "(,=;{[" or m[max(lo, j - 3):j + 1] == "move" or m[max(lo, j - 5):j + 1] == "return"
            if prev == "|" :
                is_closure = False
            if not is_closure:
                i += 1
                continue
            start = i
            if m[max(lo, j - 3):j + 1] == "move":
                start = j - 3
            # params
            if m[i + 1] == "|":
                pend = i + 1
            else:
                k = i + 1
                while k < hi and m[k] != "|":
                    if m[k] in "([":
                        k = match_close(m, k)
                    elif m[k] == "<":
                        try:
                            k = match_angle(m, k)
                        except LexError:
                            pass
                    k += 1
                pend = k
            b = skip_ws(m, pend + 1)
            ret = None
            if m.startswith("->", b):
                # explicit return type, body must be a block
                k = b + 2
                while m[k] != "{":
                    if m[k] in "([":
                        k = match_close(m, k)
                    k += 1
                ret = (b + 2, k)
                b = k
            if m[b] == "{":
                e = match_close(m, b)
                body = (b, e + 1)
                braced = True
            elif m.startswith("async", b):
                k = skip_ws(m, b + 5)
                if m.startswith("move", k):
                    k = skip_ws(m, k + 4)
                e = match_close(m, k)
                body = (b, e + 1)
                braced = False
            else:
                k = b
                while k < hi:
                    c = m[k]
                    if c in "([{":
                        k = match_close(m, k)
                    elif c in ",;)]}":
                        break
                    k += 1
                body = (b, k)
                braced = False
            res.append(dict(start=start, bars=(i, pend + 1), ret=ret, body=body, braced=braced))
            i = pend + 1  # nested closures inside the body are found too
        else:
            i += 1
    return res
